import Proofs.Lemmas.SemStartPred
import Proofs.Lemmas.SemSearch
import Proofs.Lemmas.Iter
import Proofs.C04
/-!
# C04 (semantic layer) — the start predicate that `startpredicate.rs` derives from the IR is sound

Layer (C) of `Proofs/C04.lean`: the induction over the IR.  Statements are about the exact model of
`src/startpredicate.rs` (`RegressModel/IR/StartPred.lean`) and the denotational semantics of the IR
(`RegressModel/IR/Sem.lean`, tied to the real engine by a differential test).

* `Utf8Text inp cs` — the input is a `Utf8Input` holding the UTF-8 encoding of the scalars `cs`;
  `AtBoundary cs p` — `p` is a char boundary; `restBytes inp p` — the bytes from `p` on.
* `admits P b` (`Proofs/Lemmas/StartPred.lean`) — `Arbitrary`: always; `Set bm`: the first byte of
  `b` is in `bm`; `Sequence s`: `s` is a prefix of `b`.  `admitsSP` — the same for the resolved
  `StartPredicate`.
* `WF n` — the well-formedness of IR trees (see `Proofs/C03.lean`).
-/
namespace Regress.C04Sem

open Regress.IR Regress.VM Regress.Api

/-- **Soundness of `compute_start_predicate`.** If an attempt of `n` at the char boundary `p` has a
success (whatever the capture state), the abstract predicate computed for `n` (`None` counting as
`Arbitrary`, as in `predicate_for_re`) admits the bytes at `p`. -/
theorem start_pred_sound {inp : Input} {cs : List Nat} (ht : Utf8Text inp cs) {n : Node} (hw : WF n)
    {r : Option AbstractStartPredicate} (hr : computeStartPredicate n = .ok r)
    {p : Nat} (hb : AtBoundary cs p) (caps : List Cap) (hm : sem inp n true ⟨p, caps⟩ ≠ []) :
    admits (r.getD .arbitrary) (restBytes inp p) := by
  cases r with
  | none => trivial
  | some P => exact (csp_sound ht n hw).1 P hr ⟨p, caps⟩ hb hm

/-- A node for which `compute_start_predicate` returns `None` is zero-width. -/
theorem none_is_zero_width {inp : Input} {cs : List Nat} (ht : Utf8Text inp cs) {n : Node} (hw : WF n)
    (hr : computeStartPredicate n = .ok none) (st s : St) (h : s ∈ sem inp n true st) : s.pos = st.pos :=
  (csp_sound ht n hw).2 hr st s h

theorem restBytes_lt_256 {inp : Input} {cs : List Nat} (ht : Utf8Text inp cs) (p : Nat) :
    ∀ v ∈ restBytes inp p, v < 256 := by
  intro v hv
  have hv' : v ∈ Utf8.encodeAll cs := by
    have := List.mem_of_mem_drop hv
    simpa [ht.bytes, Utf8.text] using this
  simp only [Utf8.encodeAll, List.mem_flatMap] at hv'
  obtain ⟨c, hc, hvc⟩ := hv'
  exact Utf8.encode_bytes_lt_256 (ht.scalar c hc) v hvc

/-- … and so does the concrete `StartPredicate` that `resolve_to_insn` makes of it. -/
theorem start_pred_sound_resolved {inp : Input} {cs : List Nat} (ht : Utf8Text inp cs) {n : Node} (hw : WF n)
    {r : Option AbstractStartPredicate} (hr : computeStartPredicate n = .ok r)
    {p : Nat} (hb : AtBoundary cs p) (caps : List Cap) (hm : sem inp n true ⟨p, caps⟩ ≠ []) :
    admitsSP (r.getD .arbitrary).resolveToInsn (restBytes inp p) :=
  resolve_preserves_admits _ _ (restBytes_lt_256 ht p) (start_pred_sound ht hw hr hb caps hm)

/-- **Soundness of `is_start_anchored`.** A start-anchored node only matches at offset 0 (any input). -/
theorem anchored_sound {inp : Input} {n : Node} (h : isStartAnchored n = true) {p : Nat} (caps : List Cap)
    (hm : sem inp n true ⟨p, caps⟩ ≠ []) : p = 0 :=
  anchored_pos n h ⟨p, caps⟩ hm

/-- `resolve_to_insn` never produces `StartAnchored`. -/
theorem resolve_ne_anchored (x : AbstractStartPredicate) : x.resolveToInsn ≠ .anchored := by
  cases x with
  | arbitrary => simp [AbstractStartPredicate.resolveToInsn]
  | sequence vals =>
    simp only [AbstractStartPredicate.resolveToInsn]
    split <;> simp
  | set bm =>
    simp only [AbstractStartPredicate.resolveToInsn]
    split <;> simp

/-- **Soundness of `predicate_for_re`**: where an attempt succeeds, the start predicate holds —
`StartAnchored`: the offset is 0; otherwise the byte test passes. -/
theorem predicate_for_re_sound {inp : Input} {cs : List Nat} (ht : Utf8Text inp cs) (re : Regex) (hw : WF re.node)
    {sp : StartPred} (hsp : predicateForRe re = .ok sp) {p : Nat} (hb : AtBoundary cs p)
    (hm : firstMatch inp re.node p ≠ none) :
    (sp = .anchored → p = 0) ∧ admitsSP sp (restBytes inp p) := by
  have hne : sem inp re.node true (initSt re.node p) ≠ [] := by
    intro hh; apply hm; simp [firstMatch, hh]
  unfold predicateForRe at hsp
  split at hsp
  · rename_i hanch
    simp only [Except.ok.injEq] at hsp; subst hsp
    simp only [Bool.and_eq_true] at hanch
    exact ⟨fun _ => anchored_pos re.node hanch.1 _ hne, trivial⟩
  · split at hsp
    · cases hsp
    · rename_i r hr
      simp only [Except.ok.injEq] at hsp; subst hsp
      have hadm := start_pred_sound_resolved ht hw hr hb _ hne
      refine ⟨fun he => ?_, hadm⟩
      exact absurd he (resolve_ne_anchored _)

/-- **The prefilter skips only failures**: at a char boundary where the byte test of the start
predicate fails, the attempt fails. (This is what makes the byte scans of layer (B),
`C04.findFirst_spec`, admissible.) -/
theorem prefilter_skips_only_failures {inp : Input} {cs : List Nat} (ht : Utf8Text inp cs) (re : Regex)
    (hw : WF re.node) {sp : StartPred} (hsp : predicateForRe re = .ok sp) {r : Nat} (hb : AtBoundary cs r)
    (hno : ¬ admitsSP sp (restBytes inp r)) : firstMatch inp re.node r = none := by
  apply Classical.byContradiction
  intro hm
  exact hno (predicate_for_re_sound ht re hw hsp hb hm).2

/-- **Corollary: the prefilter is transparent for the IR semantics.** Let `env` be a search
environment whose attempts are the attempts of the IR semantics at char boundaries, and whose
`find_bytes` obeys the specification of a byte scan for the regex's start predicate `sp` (it returns
a position the plain scan visits, every position it skips fails the byte test, and if it returns
`None` every later position fails the byte test — `C04.findFirst_spec` for the byte sets).  Then
`next_match_with_prefix_search` returns exactly what it returns without the prefilter. -/
theorem prefilter_transparent_sem {inp : Input} {cs : List Nat} (ht : Utf8Text inp cs) (re : Regex)
    (hw : WF re.node) {sp : StartPred} (hsp : predicateForRe re = .ok sp)
    {env : SearchEnv} (hEnv : EnvOK env)
    (hatt : ∀ r, env.attempt r ≠ none → AtBoundary cs r ∧ firstMatch inp re.node r ≠ none)
    (hreach : ∀ p q, p ≤ env.len → env.findBytes p = some q → C09.Reach env p q)
    (hskip : ∀ p q r, p ≤ env.len → env.findBytes p = some q → p ≤ r → r < q → ¬ admitsSP sp (restBytes inp r))
    (hnone : ∀ p r, p ≤ env.len → env.findBytes p = none → p ≤ r → ¬ admitsSP sp (restBytes inp r))
    {p : Nat} (hp : p ≤ env.len) :
    nextMatchPrefix env p = nextMatchPrefix { env with findBytes := some } p := by
  have fails : ∀ r, ¬ admitsSP sp (restBytes inp r) → env.attempt r = none := by
    intro r hno
    apply Classical.byContradiction
    intro hne
    obtain ⟨hb, hm⟩ := hatt r hne
    exact hm (prefilter_skips_only_failures ht re hw hsp hb hno)
  have ha : C09.PrefilterAdmissible env :=
    { some_reach := hreach
      some_skip := fun p q r hp hq hr hlt => fails r (hskip p q r hp hq (hr.le hEnv hp).1 hlt)
      none_skip := fun p r hp hq hr => fails r (hnone p r hp hq (hr.le hEnv hp).1) }
  exact C04.prefilter_transparent hEnv ha hp

/-! ## The unconditional corollary: the modelled byte scans, the IR semantics

`semEnv inp n sp` (`Proofs/Lemmas/SemSearch.lean`) is the `Api.SearchEnv` whose attempts are the
attempts of the IR semantics at char boundaries, whose `next_right_pos` is the input's, and whose
`find_bytes` is `VM.findBytesPred sp` — the model of `memchr`/`memchr2`/`memchr3`/
`ByteBitmap::find_in`/`memmem` that `BacktrackExecutor::next_match` selects for the start predicate
`sp`. -/

/-- The start predicate of a well-formed regex only mentions UTF-8 sequence-start bytes, so a byte
scan can only stop at a char boundary. -/
theorem start_pred_lead_bytes (re : Regex) (hw : WF re.node) {sp : StartPred} (h : predicateForRe re = .ok sp) :
    LeadsSP sp := predicateForRe_leads re hw h

/-- `memmem` (`VM.findSeq`) returns the first occurrence of the needle. -/
theorem findSeq_first (bytes : Array Nat) (needle : List Nat) (hne : needle ≠ []) (fuel i : Nat)
    (hf : bytes.size - i + 1 ≤ fuel) :
    match findSeq bytes needle fuel i with
    | some q => i ≤ q ∧ q < bytes.size ∧ occursAt bytes needle q ∧ ∀ r, i ≤ r → r < q → ¬ occursAt bytes needle r
    | none => ∀ r, i ≤ r → ¬ occursAt bytes needle r := findSeq_spec bytes needle hne fuel i hf

/-- The byte scan of the computed start predicate is an admissible prefix search for the IR
semantics (`C09.PrefilterAdmissible`), and the environment is well-behaved (`EnvOK`). -/
theorem byte_scan_admissible {inp : Input} {cs : List Nat} (ht : Utf8Text inp cs) (re : Regex) (hw : WF re.node)
    {sp : StartPred} (hsp : predicateForRe re = .ok sp) :
    EnvOK (semEnv inp re.node sp) ∧ C09.PrefilterAdmissible (semEnv inp re.node sp) :=
  ⟨semEnv_ok ht re.node (predicateForRe_leads re hw hsp), semEnv_admissible ht re hw hsp⟩

/-- **C04 for the IR semantics, prefix-search branch.** For a well-formed IR and UTF-8 text,
`next_match_with_prefix_search` with the byte scan of the start predicate that
`startpredicate.rs` computes returns exactly what it returns with no prefilter
(`find_bytes = Some`): same match, same captures, same `next_start`, from every start offset. -/
theorem prefilter_transparent_ir {inp : Input} {cs : List Nat} (ht : Utf8Text inp cs) (re : Regex) (hw : WF re.node)
    {sp : StartPred} (hsp : predicateForRe re = .ok sp) {p : Nat} (hp : p ≤ inp.len) :
    nextMatchPrefix (semEnv inp re.node sp) p =
      nextMatchPrefix { semEnv inp re.node sp with findBytes := some } p := by
  obtain ⟨hEnv, ha⟩ := byte_scan_admissible ht re hw hsp
  exact C04.prefilter_transparent hEnv ha hp

/-- **C04 for the IR semantics, `StartAnchored` branch.** For a start-anchored IR,
`next_match_anchored` (one attempt at the given offset, no scan) returns exactly what the plain
scan returns. -/
theorem anchored_transparent_ir {inp : Input} {cs : List Nat} (ht : Utf8Text inp cs) (n : Node)
    (ha : isStartAnchored n = true) {p : Nat} (hp : p ≤ inp.len) :
    nextMatchAnchored (semEnv inp n .anchored) p =
      nextMatchPrefix { semEnv inp n .anchored with findBytes := some } p := by
  have hEnv : EnvOK (semEnv inp n .anchored) := semEnv_ok ht n trivial
  have hp' : p ≤ (semEnv inp n .anchored).len := hp
  rw [show ({ semEnv inp n .anchored with findBytes := some } : SearchEnv) = C09.plainEnv (semEnv inp n .anchored) from rfl,
    C09.plain_eq_first hEnv hp']
  -- attempts away from offset 0 fail
  have hfail : ∀ r, 0 < r → (semEnv inp n .anchored).attempt r = none := by
    intro r hr
    simp only [semEnv]
    split
    · cases hfm : firstMatch inp n r with
      | none => rfl
      | some s =>
        exfalso
        have hne : sem inp n true (initSt n r) ≠ [] := by
          intro hh; simp [firstMatch, hh] at hfm
        have := anchored_pos n ha _ hne
        simp [initSt] at this
        omega
    · rfl
  unfold nextMatchAnchored
  cases hatt : (semEnv inp n .anchored).attempt p with
  | some ec =>
    obtain ⟨e, caps⟩ := ec
    have hf : C09.first (semEnv inp n .anchored) p = some (p, e, caps) :=
      (C09.first_spec_some hEnv hp' p e caps).2 ⟨C09.Reach.refl _, hatt, fun r hr hlt => by
        have := (hr.le hEnv hp').1; omega⟩
    simp only [hf, Option.map_some]
    rfl
  | none =>
    have hf : C09.first (semEnv inp n .anchored) p = none :=
      (C09.first_spec_none hEnv hp').2 (fun r hr => by
        by_cases hrp : r = p
        · rw [hrp]; exact hatt
        · have := (hr.le hEnv hp').1
          exact hfail r (by omega))
    simp only [hf, Option.map_none]

/-! ## Non-vacuity -/

/-- `/[ab]c/`-like IR on `"xbc"`: the predicate is the byte set `{a, b}`; the attempt at offset 1
succeeds and the byte there is `b`. -/
example : computeStartPredicate (.cat [.bracket ⟨false, [(0x61, 0x62)]⟩, .char 0x63, .goal]) =
    .ok (some (.set (cpsToFirstByteBitmap [(0x61, 0x62)]))) := rfl
example : WF (.cat [.bracket ⟨false, [(0x61, 0x62)]⟩, .char 0x63, .goal]) := by
  simp only [WF, WFList, and_true]; decide
example : Utf8Text { kind := .utf8, bytes := Utf8.text [0x78, 0x62, 0x63], unicode := false } [0x78, 0x62, 0x63] :=
  ⟨rfl, rfl, by decide⟩
example : AtBoundary [0x78, 0x62, 0x63] 1 := ⟨1, by decide, by decide⟩
example : isStartAnchored (.cat [.anchor true false, .char 0x61, .goal]) = true := rfl

end Regress.C04Sem

#print axioms Regress.C04Sem.start_pred_sound
#print axioms Regress.C04Sem.start_pred_sound_resolved
#print axioms Regress.C04Sem.anchored_sound
#print axioms Regress.C04Sem.predicate_for_re_sound
#print axioms Regress.C04Sem.prefilter_skips_only_failures
#print axioms Regress.C04Sem.prefilter_transparent_sem
#print axioms Regress.C04Sem.byte_scan_admissible
#print axioms Regress.C04Sem.prefilter_transparent_ir
#print axioms Regress.C04Sem.anchored_transparent_ir
