import Proofs.Lemmas.PropExpr
import Proofs.C08
import Proofs.Lemmas.TotalParse3
/-!
# PropExpr — the body of a `\p{…}` / `\P{…}` escape has at most one `=`

`Parse.propertyEscape us inp` is the model of `Parser::try_consume_unicode_property_escape`
(`src/parse.rs`; `inp` is the input after `\p` / `\P`, `us` is `flags.unicode_sets`), a wrapper of
`Props.consumePropertyEscape` / `Props.consumeEscapeLoop` (`RegressModel/Unicode/Props.lean`).
Text is a list of code points; `0x7B` `{`, `0x7D` `}`, `0x3D` `=`, `0x5C` `\`, `0x70` `p`, `0x50` `P`.

* `prop_expr_two_eq_rejected` (function level, every `us`, every body, every continuation) and its
  lifts to `parse` of the whole pattern `\p{xs}`, `\P{xs}`, `[\p{xs}]`, `[\P{xs}]` under every flag
  record with `u` or `v`;
* `prop_expr_at_most_one_eq`: on ANY input, a successful escape has read a body with `≤ 1` `=`;
* `prop_expr_shape`: what a successful escape has read;
* concrete regression facts.
-/
namespace Regress.PropExpr
open Regress Regress.IR Regress.Parse Regress.Props Regress.C08

/-! ## 1. Two `=` are rejected -/

/-- `consumePropertyEscape` on `{xs}…` with two `=` in `xs`. -/
theorem consumePropertyEscape_two_eq (us : Bool) (xs tail : List Nat)
    (h2 : 2 ≤ xs.count 0x3D) (hc : 0x7D ∉ xs) :
    consumePropertyEscape us (0x7B :: xs ++ 0x7D :: tail) = none := by
  simp only [List.cons_append, consumePropertyEscape]
  exact loop_two_eq_none us tail xs 1 none h2 hc

/-- FUNCTION LEVEL, full generality: for either value of `unicode_sets`, every body `xs` without `}`
that contains at least two `=`, and every continuation `tail`, the property-escape function returns
the syntax error on `{xs}tail`. -/
theorem prop_expr_two_eq_rejected (us : Bool) (xs tail : List Nat)
    (h2 : 2 ≤ xs.count 0x3D) (hc : 0x7D ∉ xs) :
    propertyEscape us (0x7B :: xs ++ 0x7D :: tail) = synErr "Invalid property escape" := by
  unfold propertyEscape
  rw [consumePropertyEscape_two_eq us xs tail h2 hc]

/-- Non-vacuity: `sc=gc=Lu`. -/
example : 2 ≤ (pat! "sc=gc=Lu").count 0x3D ∧ 0x7D ∉ pat! "sc=gc=Lu" := by decide

/-- The state after the pre-scan, in `u`/`v` mode. -/
private theorem unicode_of_uMode {fl : Flags} {st' : PState} (hu : uMode fl = true)
    (hfl : st'.flags = (if fl.unicodeSets then { fl with unicode := true } else fl)) :
    st'.flags.unicode = true := by
  rw [hfl]; unfold uMode at hu
  cases h1 : fl.unicodeSets <;> simp_all

/-- LIFTED, standalone: under every flag record with `u` or `v`, the whole pattern `\p{xs}`
(`e = p`) or `\P{xs}` (`e = P`) is a syntax error when `xs` (without `}`) has two `=`. -/
theorem prop_expr_two_eq_rejected_parse (e : Nat) (he : e = 0x70 ∨ e = 0x50) (xs : List Nat)
    (h2 : 2 ≤ xs.count 0x3D) (hc : 0x7D ∉ xs) (fl : Flags) (hu : uMode fl = true) :
    rejected (parse (0x5C :: e :: 0x7B :: xs ++ [0x7D]) fl) = true := by
  apply rejected_of_descent
  intro st' hi hfl hd
  have hun := unicode_of_uMode hu hfl
  have hfuel : parseFuel st'.input = (4 * st'.input.length + 4) + 4 := by simp [parseFuel]
  have hp := prop_expr_two_eq_rejected st'.flags.unicodeSets xs [] h2 hc
  simp only [List.cons_append] at hp
  unfold parseBody
  rw [hfuel]
  rcases he with rfl | rfl <;>
    simp [consumeDisjunction, disjLoop, termLoop, consumeAtom, consume, consumeAtomEscape, hi, hd, hun,
      Gen.MAX_NESTING_DEPTH, hp, synErr]

/-- `consume_class_set_operand` on `\p…` / `\P…` when the property escape fails. -/
private theorem classSetOperand_prop_err (fl : Flags) (hn : Bool) (f : Nat) (st : CSt) (e : Nat)
    (he : e = 0x70 ∨ e = 0x50) (rest : List Nat) (hinp : st.inp = 0x5C :: e :: rest)
    (hp : propertyEscape fl.unicodeSets rest = synErr "Invalid property escape") :
    classSetOperand fl hn (f + 1) st = synErr "Invalid property escape" := by
  rcases he with rfl | rfl <;> simp [classSetOperand, hinp, hp, synErr]

/-- `consume_class_set_expression` on `\p…` / `\P…` when the property escape fails. -/
private theorem classSetExpression_prop_err (fl : Flags) (hn : Bool) (f : Nat) (st : CSt) (e : Nat)
    (he : e = 0x70 ∨ e = 0x50) (rest : List Nat) (hinp : st.inp = 0x5C :: e :: rest)
    (hp : propertyEscape fl.unicodeSets rest = synErr "Invalid property escape") :
    classSetExpression fl hn (f + 2) st = synErr "Invalid property escape" := by
  rw [classSetExpression]
  simp only [hinp]
  rw [classSetOperand_prop_err fl hn f st e he rest hinp hp]
  simp [synErr]

/-- The `[` arm of `consume_term` under `v` on `[\p…` / `[\P…` when the property escape fails. -/
private theorem consumeAtom_classSet_prop_err (f : Nat) (st : PState) (result : List Node) (e : Nat)
    (he : e = 0x70 ∨ e = 0x50) (rest : List Nat) (hv : st.flags.unicodeSets = true)
    (hinp : st.input = 0x5B :: 0x5C :: e :: rest)
    (hp : propertyEscape true rest = synErr "Invalid property escape") :
    consumeAtom (f + 1) st result 0x5B = synErr "Invalid property escape" := by
  rw [consumeAtom_succ]
  simp only [consumeAtomA, hv]
  simp only [show ((0x5B : Nat) == 0x5E) = false from rfl, show ((0x5B : Nat) == 0x24) = false from rfl,
    show ((0x5B : Nat) == 0x5C) = false from rfl, show ((0x5B : Nat) == 0x2E) = false from rfl,
    show ((0x5B : Nat) == 0x28) = false from rfl, Bool.false_eq_true, if_false, beq_self_eq_true,
    Bool.and_self, if_true]
  unfold atomClassSetA
  rw [consume_eq hinp]
  simp only [tryConsume, show ((0x5C : Nat) == 0x5E) = false from rfl, Bool.false_eq_true, if_false]
  rw [show 2 * (0x5C :: e :: rest).length + 4 = (2 * (0x5C :: e :: rest).length + 2) + 2 by omega,
    classSetExpression_prop_err _ _ _ _ e he rest rfl (by rw [hv]; exact hp)]
  rfl

/-- LIFTED, inside a class: under every flag record with `u` or `v`, the whole pattern `[\p{xs}]`
or `[\P{xs}]` is a syntax error when `xs` (without `}`) has two `=` (legacy bracket under `u`,
class set under `v`). -/
theorem prop_expr_two_eq_rejected_parse_class (e : Nat) (he : e = 0x70 ∨ e = 0x50) (xs : List Nat)
    (h2 : 2 ≤ xs.count 0x3D) (hc : 0x7D ∉ xs) (fl : Flags) (hu : uMode fl = true) :
    rejected (parse (0x5B :: 0x5C :: e :: 0x7B :: xs ++ [0x7D, 0x5D]) fl) = true := by
  apply rejected_of_descent
  intro st' hi hfl hd
  have hun := unicode_of_uMode hu hfl
  have hfuel : parseFuel st'.input = (4 * st'.input.length + 4) + 4 := by simp [parseFuel]
  have hp := prop_expr_two_eq_rejected st'.flags.unicodeSets xs [0x5D] h2 hc
  simp only [List.cons_append] at hp
  unfold parseBody
  rw [hfuel]
  cases hv : st'.flags.unicodeSets
  · -- `u` without `v`: `consume_bracket`
    rw [hv] at hp
    rcases he with rfl | rfl <;>
      simp [consumeDisjunction, disjLoop, termLoop, consumeAtom, consumeBracket, bracketLoop,
        bracketClassAtom, hi, hd, hun, hv, Gen.MAX_NESTING_DEPTH, hp, synErr]
  · -- `v`: `consume_class_set_expression`
    rw [hv] at hp
    simp only [List.cons_append] at hi
    obtain ⟨k, hk⟩ : ∃ k, (4 * st'.input.length + 4) + 4 = k + 4 := ⟨_, rfl⟩
    rw [hk]
    have hatom : ∀ (st : PState) (result : List Node), st.flags = st'.flags →
        st.input = 0x5B :: 0x5C :: e :: 0x7B :: (xs ++ [0x7D, 0x5D]) →
        consumeAtom (k + 1) st result 0x5B = synErr "Invalid property escape" := by
      intro st result hf hin
      exact consumeAtom_classSet_prop_err k st result e he _ (by rw [hf]; exact hv) hin
        (by simpa using hp)
    refine ⟨"Invalid property escape", ?_⟩
    rw [consumeDisjunction]
    simp only [hd, Gen.MAX_NESTING_DEPTH, show ¬ (0 + 1 > 256) by omega, if_false]
    rw [disjLoop, termLoop]
    dsimp only
    rw [hi]
    try dsimp only
    simp only [show ((0x5B : Nat) == 0x29 || (0x5B : Nat) == 0x7C) = false from rfl, Bool.false_eq_true,
      if_false]
    rw [hatom { st' with input := 0x5B :: 0x5C :: e :: 0x7B :: (xs ++ [0x7D, 0x5D]), depth := 0 + 1 } []
      rfl rfl]
    rfl

/-! ## 2. What a successful escape has read -/

theorem enc_one (l : List Nat) : enc 1 l = Packed.nameOfBytes l := rfl

/-- A nonempty run of name characters. -/
def NameOK (l : List Nat) : Prop := l ≠ [] ∧ l.all PChar = true

/-- The bodies the code allows: `name` (a binary property, under `v` a property of strings, or a
General_Category value), or `name=value` with `name` one of the property names
(General_Category / Script / Script_Extensions and their aliases) and `value` a value of it; every
piece is a NONEMPTY run of `[A-Za-z0-9_]` (an empty piece is not in any table, see `empty_*`), and
there is no other character -- in particular no second `=`, no space, no `-`. -/
def Shape (us : Bool) (body : List Nat) : Prop :=
  (NameOK body ∧ ∃ kind, propertyFromStr (Packed.nameOfBytes body) none us = some kind) ∨
  (∃ nm val n, body = nm ++ 0x3D :: val ∧ NameOK nm ∧ NameOK val ∧
    propertyNameFromStr (Packed.nameOfBytes nm) = some n ∧
    ∃ kind, propertyFromStr (Packed.nameOfBytes val) (some n) us = some kind)

/-- The empty name is in no table. -/
theorem empty_name_none : propertyNameFromStr 1 = none := by decide +kernel
theorem empty_lone_none (us : Bool) : propertyFromStr 1 none us = none := by
  cases us <;> decide +kernel
theorem empty_value_none (n : Nat) (us : Bool) : propertyFromStr 1 (some n) us = none := by
  match n with
  | 0 => cases us <;> decide +kernel
  | 1 => cases us <;> decide +kernel
  | n + 2 =>
    have : (Props.lookup3 Gen.scriptExtNames 1) = none := by decide +kernel
    simp [propertyFromStr, this]

theorem loop_Shape {us : Bool} {inp : List Nat} {k : Kind} {rest : List Nat}
    (h : consumeEscapeLoop us inp 1 none = some (k, rest)) :
    ∃ body, inp = body ++ 0x7D :: rest ∧ Shape us body := by
  obtain ⟨body, hb, hs⟩ := loop_shape us inp 1 none k rest h
  refine ⟨body, hb, ?_⟩
  rcases hs with ⟨hall, hk⟩ | ⟨_, nm, val, n, hbody, hnm, hval, hn, hk⟩
  · rw [enc_one] at hk
    refine .inl ⟨⟨?_, hall⟩, k, hk⟩
    rintro rfl
    rw [show Packed.nameOfBytes [] = 1 from rfl, empty_lone_none] at hk
    cases hk
  · rw [enc_one] at hn hk
    refine .inr ⟨nm, val, n, hbody, ⟨?_, hnm⟩, ⟨?_, hval⟩, hn, k, hk⟩
    · rintro rfl
      rw [show Packed.nameOfBytes [] = 1 from rfl, empty_name_none] at hn
      cases hn
    · rintro rfl
      rw [show Packed.nameOfBytes [] = 1 from rfl, empty_value_none] at hk
      cases hk

/-- If the property-escape function succeeds on `inp` (the input after `\p` / `\P`) then `inp` is
`{ body } rest` with `rest` the returned remaining input and `body` of the allowed shape. -/
theorem prop_expr_shape {us : Bool} {inp : List Nat} {k : PropKind} {rest : List Nat}
    (h : propertyEscape us inp = .ok (k, rest)) :
    ∃ body, inp = 0x7B :: body ++ 0x7D :: rest ∧ Shape us body := by
  unfold propertyEscape at h
  have key : ∀ kind, consumePropertyEscape us inp = some (kind, rest) →
      ∃ body, inp = 0x7B :: body ++ 0x7D :: rest ∧ Shape us body := by
    intro kind hk
    unfold consumePropertyEscape at hk
    split at hk
    · obtain ⟨body, hb, hs⟩ := loop_Shape hk
      exact ⟨body, by simp [hb], hs⟩
    · cases hk
  split at h
  · simp [synErr] at h
  · rename_i p len rest' hk
    cases h
    exact key _ hk
  · rename_i idx rest' hk
    split at h
    · cases h; exact key _ hk
    · simp [panicAt] at h

/-- A body of the allowed shape contains no `}` and at most one `=`, and consists of name
characters and `=` only. -/
theorem Shape.facts {us : Bool} {body : List Nat} (h : Shape us body) :
    body.count 0x3D ≤ 1 ∧ 0x7D ∉ body ∧ ∀ c ∈ body, PChar c = true ∨ c = 0x3D := by
  have hcount : ∀ l : List Nat, l.all PChar = true → l.count 0x3D = 0 := by
    intro l hl
    rw [List.count_eq_zero]
    intro hm
    have := List.all_eq_true.mp hl _ hm
    simp [eq_not_PChar] at this
  have hclose : ∀ l : List Nat, l.all PChar = true → 0x7D ∉ l := by
    intro l hl hm
    exact PChar_ne_close (List.all_eq_true.mp hl _ hm) rfl
  rcases h with ⟨⟨_, hall⟩, _⟩ | ⟨nm, val, n, rfl, ⟨_, hnm⟩, ⟨_, hval⟩, _, _⟩
  · exact ⟨by rw [hcount _ hall]; omega, hclose _ hall, fun c hc => .inl (List.all_eq_true.mp hall c hc)⟩
  · refine ⟨?_, ?_, ?_⟩
    · simp [List.count_append, hcount _ hnm, hcount _ hval]
    · intro hm
      simp only [List.mem_append, List.mem_cons] at hm
      rcases hm with hm | hm | hm
      · exact hclose _ hnm hm
      · cases hm
      · exact hclose _ hval hm
    · intro c hc
      simp only [List.mem_append, List.mem_cons] at hc
      rcases hc with hc | rfl | hc
      · exact .inl (List.all_eq_true.mp hnm c hc)
      · exact .inr rfl
      · exact .inl (List.all_eq_true.mp hval c hc)

/-- On ANY input (closed or not, whatever follows): a successful escape has read `{ body }` with at
most one `=` in `body`. -/
theorem prop_expr_at_most_one_eq {us : Bool} {inp : List Nat} {k : PropKind} {rest : List Nat}
    (h : propertyEscape us inp = .ok (k, rest)) :
    ∃ body, inp = 0x7B :: body ++ 0x7D :: rest ∧ body.count 0x3D ≤ 1 ∧ 0x7D ∉ body := by
  obtain ⟨body, hb, hs⟩ := prop_expr_shape h
  exact ⟨body, hb, hs.facts.1, hs.facts.2.1⟩

/-- The escape succeeded and consumed everything. -/
def readsAll (r : Res (PropKind × List Nat)) : Bool :=
  match r with
  | .ok (_, []) => true
  | _ => false

/-- Non-vacuity of the hypothesis of `prop_expr_shape`: `Lu`, `gc=Lu`, `sc=Greek` under `u`;
`RGI_Emoji` only under `v`; an empty piece, a space or a `-` is rejected. -/
example : readsAll (propertyEscape false (pat! "{Lu}")) = true ∧
    readsAll (propertyEscape false (pat! "{gc=Lu}")) = true ∧
    readsAll (propertyEscape false (pat! "{sc=Greek}")) = true ∧
    readsAll (propertyEscape true (pat! "{RGI_Emoji}")) = true ∧
    readsAll (propertyEscape false (pat! "{RGI_Emoji}")) = false ∧
    readsAll (propertyEscape false (pat! "{}")) = false ∧
    readsAll (propertyEscape false (pat! "{gc=}")) = false ∧
    readsAll (propertyEscape false (pat! "{=Lu}")) = false ∧
    readsAll (propertyEscape false (pat! "{gc= Lu}")) = false ∧
    readsAll (propertyEscape false (pat! "{Script-Extensions=Latin}")) = false := by
  decide +kernel

/-! ## 3. Concrete regression facts -/

def uFlags : Flags := { unicode := true }
def vFlags : Flags := { unicodeSets := true }

/-- The seeded change (a second `=` re-read the value as a property name) made the first of these
accepted. -/
theorem prop_expr_regressions :
    rejected (parse (pat! "\\p{sc=gc=Lu}") uFlags) = true ∧
    rejected (parse (pat! "\\p{sc=gc=Lu}") vFlags) = true ∧
    rejected (parse (pat! "\\P{gc=sc=Greek}") uFlags) = true ∧
    rejected (parse (pat! "\\P{gc=sc=Greek}") vFlags) = true ∧
    rejected (parse (pat! "[\\p{Script=Script_Extensions=Latin}]") uFlags) = true ∧
    rejected (parse (pat! "[\\p{Script=Script_Extensions=Latin}]") vFlags) = true := by
  decide +kernel

theorem prop_expr_accepted :
    accepted (parse (pat! "\\p{gc=Lu}") uFlags) = true ∧ accepted (parse (pat! "\\p{gc=Lu}") vFlags) = true ∧
    accepted (parse (pat! "\\p{Lu}") uFlags) = true ∧ accepted (parse (pat! "\\p{Lu}") vFlags) = true ∧
    accepted (parse (pat! "\\p{sc=Greek}") uFlags) = true ∧ accepted (parse (pat! "\\p{sc=Greek}") vFlags) = true ∧
    accepted (parse (pat! "[\\P{scx=Greek}]") uFlags) = true ∧ accepted (parse (pat! "[\\P{scx=Greek}]") vFlags) = true := by
  decide +kernel

/-- The general theorems applied to the seeded pattern (they do not evaluate the parser). -/
example : rejected (parse (pat! "\\p{sc=gc=Lu}") uFlags) = true :=
  prop_expr_two_eq_rejected_parse 0x70 (.inl rfl) (pat! "sc=gc=Lu") (by decide) (by decide) uFlags rfl
example : rejected (parse (pat! "[\\P{gc=sc=Greek}]") vFlags) = true :=
  prop_expr_two_eq_rejected_parse_class 0x50 (.inr rfl) (pat! "gc=sc=Greek") (by decide) (by decide) vFlags rfl

end Regress.PropExpr

#print axioms Regress.PropExpr.prop_expr_two_eq_rejected
#print axioms Regress.PropExpr.prop_expr_two_eq_rejected_parse
#print axioms Regress.PropExpr.prop_expr_two_eq_rejected_parse_class
#print axioms Regress.PropExpr.prop_expr_shape
#print axioms Regress.PropExpr.Shape.facts
#print axioms Regress.PropExpr.prop_expr_at_most_one_eq
#print axioms Regress.PropExpr.prop_expr_regressions
#print axioms Regress.PropExpr.prop_expr_accepted
