import Proofs.Lemmas.DupNameRef
import Proofs.ESTerm
/-!
# Named back-references to duplicated group names (the case `Proofs/Lower.lean` left out)

ES2025 allows several groups with the same name provided no two of them can both participate
(`(?<n>a)|(?<n>b)`: early error rule "MightBothParticipate", `ES.groupNames`); `\k<n>` is then
`BackreferenceMatcher(rer, ns, direction)` over the list `ns` of *all* groups named `n`, and the
standard asserts that at most one of them is defined.  The crate (`parse.rs`, the `'k'` arm of
`consume_atom_escape`) lowers such a `\k<n>` to `Cat [BackRef g1, BackRef g2, …]`: an unset group's
back-reference matches the empty string.  `Proofs/Lower.lean` proves "specification = IR semantics"
only for ASTs whose named back-references resolve to one group (`supported`).  This file removes
that restriction.

1. **The invariant** (`es_atMostOne_threaded`, `es_atMostOne_success`): for a pattern whose names
   pass the early-error rule, two distinct groups with the same name are never both defined — it
   holds in the initial state, every Matcher of the pattern that is entered in a state satisfying it
   (with the node's own groups and their namesakes undefined) invokes its continuation only on states
   satisfying it (`ES.MSim`, the Hoare-style statement that is proved by induction over the AST), and
   so it holds in every success state.
2. **The named back-reference itself** (`nref_dup_spec`, `nref_dup_agree`): under the invariant the
   specification's `BackreferenceMatcher` over all groups of the name is the sequence of the single
   back-references, and it agrees with the IR `Cat [BackRef …]` that `toIR` builds — forward and
   backward, with and without `i` under `u`/`v`.
3. **The agreement theorems without the restriction**: `lower_attempt_partial_dup`,
   `lower_attempt_ast_partial_dup`, `lower_search_partial_dup`, `lower_attempt_total_dup`,
   `lower_search_total_dup` — the statements of `Proofs/Lower.lean` / `Proofs/ESTerm.lean` with
   `supported` replaced by `supportedDup` (= `supported` without "a named back-reference resolves to
   one group") plus the early-error rule on names (`ES.groupNames (normalize a) = .ok _`, one of the
   two conjuncts of `ES.validate`); `lower_attempt_total_dup_valid` / `lower_search_total_dup_valid`
   take `ES.validate f a = none` instead (`ES.groupNames_normalize`).

How: `ES.elimDup p` replaces every `\k<n>` with a duplicated name by `\g1\g2…`; its lowering is the
lowering of `p` verbatim (`elim_lower`), it lies in `supported`, so the existing induction
(`lower_node`) applies to it unchanged; and by 1. and 2. its specification Matcher is the Matcher of
`p` (`ES.matchAt_elimDup`).  No existing file is changed.

No discrepancy between the crate's lowering and the specification was found.
-/
namespace Regress.Lower

open Regress Regress.IR Regress.VM Regress.Parse

/-! ## 1. The invariant -/

/-- **The invariant, threaded**: for a pattern `p` whose group names pass the early-error rule, the
Matcher of `p` (any direction, any RegExp Record) and the Matcher of `elimDup p p` are related by
`ES.MSim`: entered in a state where the invariant `ES.AtMostOne` holds (and the groups are
undefined), with continuations that agree on the states that satisfy the invariant, they give the same
result.  The induction behind it (`ES.elim_msim`) proves the same about every sub-node at its place
(entered with its own groups and their namesakes undefined, `ES.Pre`; continuation invoked only on
states satisfying the invariant that differ from the entry state inside the node's groups only,
`ES.Post`) — i.e. the invariant holds at every point of the matching. -/
theorem es_atMostOne_threaded (input : Array Nat) {p : ES.Node} {names : List (List Nat)}
    (h : ES.groupNames p = .ok names) (rer : ES.RER) (d : ES.Direction) :
    ES.MSim p (ES.compileNode input p p rer d 0) (ES.compileNode input (ES.elimDup p p) (ES.elimDup p p) rer d 0)
      0 (ES.countParens p) := by
  have := ES.elim_msim input p (ES.elimDup p p) (ES.gs_elimDup p) p rer d 0 (ES.namesOK_of_groupNames h)
  simpa using this

/-- **The invariant in every success state** of an anchored attempt: at most one of the groups that
share a name is defined. -/
theorem es_atMostOne_success (input : Array Nat) {p : ES.Node} {names : List (List Nat)}
    (h : ES.groupNames p = .ok names) (rer : ES.RER) (fuel i : Nat) (y : ES.State)
    (hy : ES.matchAt input p rer fuel i = .success y) :
    ∀ g g' nm, g ∈ ES.groupSpecifiersThatMatch p nm → g' ∈ ES.groupSpecifiersThatMatch p nm →
      ES.getCapture y.captures g ≠ none → ES.getCapture y.captures g' ≠ none → g = g' :=
  fun g g' nm hg hg' h1 h2 => (ES.matchAt_elimDup input p h rer fuel i).2 y hy g g' ⟨nm, hg, hg'⟩ h1 h2

/-! ## 2. The named back-reference to a duplicated name -/

/-- **Specification side**: in a state satisfying the invariant, `\k<n>` (`BackreferenceMatcher` over
all groups named `n`) and the sequence `\g1\g2…` of the numeric back-references have the same result
for every continuation, in both directions and for every RegExp Record (so with and without `i`). -/
theorem nref_dup_spec (input : Array Nat) (p : ES.Node) (name : List Nat) (rer : ES.RER) (d : ES.Direction)
    (pi fuel : Nat) (x : ES.State) (c : ES.Cont) (hx : ES.AtMostOne p x.captures) :
    (ES.compileNode input p (.nref name) rer d pi).run fuel x c =
      (ES.compileNode input p (.cat ((ES.groupSpecifiersThatMatch p name).map .bref)) rer d pi).run fuel x c := by
  simp only [ES.compileNode]
  exact (ES.nref_dup_run input p p rer d name pi fuel x c hx).symm

section
variable {inp : Input} {cs : List Nat}

/-- **Specification against IR, the missing case of the induction**: the statement of the `.nref`
case of `lower_node` (`Sim` of the node's Matcher against the finalized IR of the node, in both
directions `back`) for a name carried by two or more groups, with the invariant as the one additional
hypothesis on the entry state.  `fl.icase` is arbitrary (under `!fl.icase || fl.unicode`, as everywhere
in `supported`). -/
theorem nref_dup_agree (ht : Utf8Text inp cs) (p : ES.Node) (total : Nat) (htot : ES.countParens p ≤ total)
    (name : List Nat) (hlen : 2 ≤ (ES.groupSpecifiersThatMatch p name).length) (fl : IR.Flags) (rer : ES.RER)
    (hfl : FlagsRel rer fl) (hiu : inp.unicode = fl.unicode) (hic : (!fl.icase || fl.unicode) = true)
    (pi : Nat) (hpi : pi ≤ total) (back : Bool) :
    lowerNode p total (.nref name) fl pi =
        .ok (.cat ((ES.groupSpecifiersThatMatch p name).map fun i => .backRef i fl.icase)) ∧
    ∃ ir', Parse.reverseCats back (.cat ((ES.groupSpecifiersThatMatch p name).map fun i => .backRef i fl.icase)) =
        .ok ir' ∧
      ∀ (fuel : Nat) (x : ES.State) (st : St) (c : ES.Cont) (k : St → Option St),
        Rel cs x st → st.caps.length = total → ES.AtMostOne p x.captures →
        (∀ y s, s ∈ sem inp ir' (!back) st → Rel cs y s → ResRel cs (c y) (k s)) →
        ResRel cs ((ES.compileNode cs.toArray p (.nref name) rer (dirOf back) pi).run fuel x c)
          ((sem inp ir' (!back) st).findSome? k) := by
  have hl : lowerNode p total (.nref name) fl pi =
      .ok (.cat ((ES.groupSpecifiersThatMatch p name).map fun i => .backRef i fl.icase)) := by
    simp only [lowerNode]
    match hg : ES.groupSpecifiersThatMatch p name with
    | [] => rw [hg] at hlen; simp at hlen
    | [i] => rw [hg] at hlen; simp at hlen
    | i :: j :: rest => rfl
  refine ⟨hl, ?_⟩
  have hs : supportedDup p fl (.nref name) = true := by simpa only [supportedDup] using hic
  obtain ⟨hsup', hl'⟩ := elim_lower p p total htot (fun _ => rfl) (.nref name) fl pi _ hs hl
  simp only [ES.elimDup, hlen, if_true] at hsup' hl'
  obtain ⟨ir', hrv, hsim, _, _, _⟩ :=
    lower_node ht p total htot _ fl rer pi back _ hfl hiu hsup' hl'
      (by simp only [ES.countParens, ES.countParensList_brefs]; omega)
  refine ⟨ir', hrv, fun fuel x st c k hr hlen' hx hc => ?_⟩
  rw [nref_dup_spec cs.toArray p name rer (dirOf back) pi fuel x c hx]
  apply hsim fuel x st c k hr hlen'
  · simp only [ES.countParens, ES.countParensList_brefs, Nat.add_zero]
    exact ⟨by omega, fun i h1 h2 => by omega⟩
  · exact hc

end

/-! ## 3. The agreement theorems without the restriction on named back-references -/

/-- **ES specification ⇒ IR semantics, one anchored attempt**: `lower_attempt_partial` with
`supported` weakened to `supportedDup` (named back-references may refer to duplicated names), given
the early-error rule on group names. -/
theorem lower_attempt_partial_dup {f : ES.Flags} {a : ES.Node} {r : Regex} {inp : Input} {cs : List Nat}
    (hsup : supportedDup (normalize a) (irFlags f) (normalize a) = true)
    (hnames : ∃ names, ES.groupNames (normalize a) = .ok names)
    (hir : toIR f a = .ok r) (ht : Utf8Text inp cs) (hiu : inp.unicode = (f.u || f.v)) (i : Nat)
    (hi : i ≤ cs.length) (fuel : Nat) :
    AttemptAgrees cs
      (ES.matchAt cs.toArray (normalize a) (ES.RER.ofFlags f (ES.countParens (normalize a))) fuel i)
      (firstMatch inp r.node (Utf8.off cs i)) := by
  obtain ⟨names, hnames⟩ := hnames
  obtain ⟨body, hbody, hcases⟩ := toIR_inv hir
  -- the pattern without named back-references to duplicated names: same IR, and `supported`
  have hcp : ES.countParens (ES.elimDup (normalize a) (normalize a)) = ES.countParens (normalize a) :=
    ES.countParens_elimDup _ _
  obtain ⟨hsup', hbody'⟩ :=
    elim_lower (normalize a) (ES.elimDup (normalize a) (normalize a)) (ES.countParens (normalize a)) (Nat.le_refl _)
      (ES.gs_elimDup _) (normalize a) (irFlags f) 0 body hsup hbody
  obtain ⟨body', hrv, hsim, _, hng, hid⟩ :=
    lower_node ht (ES.elimDup (normalize a) (normalize a)) (ES.countParens (normalize a)) (by rw [hcp]; exact Nat.le_refl _)
      (ES.elimDup (normalize a) (normalize a)) (irFlags f)
      (ES.RER.ofFlags f (ES.countParens (normalize a))) 0 false body (FlagsRel.ofFlags f _) hiu hsup' hbody'
      (by rw [hcp]; omega)
  rw [hcp] at hng hsim
  rw [hasLookbehind_elimDup] at hid
  have hnode : r.node = .cat [body', .goal] := by
    rcases hcases with ⟨_, b', hb', hn⟩ | ⟨hlb, hn⟩
    · rw [hrv] at hb'; cases hb'; exact hn
    · rw [hn, hid rfl hlb]
  have hgroups : numGroups r.node = ES.countParens (normalize a) := by
    rw [hnode]; simp [numGroups, numGroupsList, hng]
  have hsem : ∀ st, sem inp r.node true st = sem inp body' true st := by
    intro st
    rw [hnode]
    simp only [sem, semCat, List.flatMap_cons, List.flatMap_nil, List.append_nil]
    exact flatMap_singleton' _
  unfold AttemptAgrees
  rw [(ES.matchAt_elimDup cs.toArray (normalize a) hnames _ fuel i).1]
  simp only [firstMatch, ES.matchAt, hsem, head?_eq_findSome?]
  simp only [dirOf_false, Bool.not_false, Nat.zero_add] at hsim
  apply hsim fuel _ (initSt r.node (Utf8.off cs i)) _ some
  · refine ⟨hi, rfl, by simp [initSt, hgroups, ES.RER.ofFlags], fun j => ?_⟩
    simp only [initSt, ES.RER.ofFlags, hgroups]
    by_cases hj : j < ES.countParens (normalize a)
    · simp [hj, CapRel]
    · simp [hj, CapRel]
  · simp [initSt, hgroups]
  · refine ⟨by simp [initSt, hgroups], fun j _ hj => ?_⟩
    simp [initSt, hgroups, hj]
  · intro y s _ hys
    exact ⟨s, rfl, hys⟩

/-- **The same about the AST itself** (`lower_attempt_ast_partial` without the restriction). -/
theorem lower_attempt_ast_partial_dup {f : ES.Flags} {a : ES.Node} {r : Regex} {inp : Input} {cs : List Nat}
    (hsup : supportedDup (normalize a) (irFlags f) (normalize a) = true)
    (hnames : ∃ names, ES.groupNames (normalize a) = .ok names)
    (hir : toIR f a = .ok r) (ht : Utf8Text inp cs) (hiu : inp.unicode = (f.u || f.v)) (i : Nat)
    (hi : i ≤ cs.length) (fuel : Nat) :
    AttemptAgrees cs (ES.matchAt cs.toArray a (ES.RER.ofFlags f (ES.countParens a)) fuel i)
      (firstMatch inp r.node (Utf8.off cs i)) := by
  rw [← matchAt_normalize]
  exact lower_attempt_partial_dup hsup hnames hir ht hiu i hi fuel

/-- **The leftmost search** (`lower_search_partial` without the restriction). -/
theorem lower_search_partial_dup {f : ES.Flags} {a : ES.Node} {r : Regex} {inp : Input} {cs : List Nat}
    (hsup : supportedDup (normalize a) (irFlags f) (normalize a) = true)
    (hnames : ∃ names, ES.groupNames (normalize a) = .ok names)
    (hir : toIR f a = .ok r) (ht : Utf8Text inp cs) (hiu : inp.unicode = (f.u || f.v)) (start : Nat)
    (hs : start ≤ cs.length) (fuel : Nat) :
    SearchAgrees cs (ES.esExec f a cs.toArray start fuel) (semFind inp r.node (Utf8.off cs start)) := by
  rw [ES.esExec_eq]
  simp only [SearchAgrees, semFind, List.size_toArray]
  apply search_agrees ht r.node _ (fun j hj => by
      have := lower_attempt_ast_partial_dup hsup hnames hir ht hiu j hj fuel
      unfold AttemptAgrees at this
      exact this)
    (cs.length + 1 - start) start _ hs (by omega) (Nat.le_refl _)

/-- **ES specification = IR semantics, one anchored attempt, no fuel proviso**
(`lower_attempt_total` without the restriction on named back-references). -/
theorem lower_attempt_total_dup {f : ES.Flags} {a : ES.Node} {r : Regex} {inp : Input} {cs : List Nat}
    (hsup : supportedDup (normalize a) (irFlags f) (normalize a) = true)
    (hnames : ∃ names, ES.groupNames (normalize a) = .ok names)
    (hir : toIR f a = .ok r) (ht : Utf8Text inp cs) (hiu : inp.unicode = (f.u || f.v)) (i : Nat)
    (hi : i ≤ cs.length) (fuel : Nat) (hfuel : ES.esFuelBound a cs.length ≤ fuel) :
    (ES.matchAt cs.toArray a (ES.RER.ofFlags f (ES.countParens a)) fuel i = .failure ∧
      firstMatch inp r.node (Utf8.off cs i) = none) ∨
    (∃ y s, ES.matchAt cs.toArray a (ES.RER.ofFlags f (ES.countParens a)) fuel i = .success y ∧
      firstMatch inp r.node (Utf8.off cs i) = some s ∧ Rel cs y s) := by
  have h1 := lower_attempt_ast_partial_dup hsup hnames hir ht hiu i hi fuel
  have h0 := ES.es_terminates a (ES.RER.ofFlags f (ES.countParens a)) cs i fuel hi hfuel
  unfold AttemptAgrees at h1
  cases hm : ES.matchAt cs.toArray a (ES.RER.ofFlags f (ES.countParens a)) fuel i with
  | outOfFuel => exact absurd hm h0
  | failure =>
    rw [hm] at h1
    exact .inl ⟨rfl, h1⟩
  | success y =>
    rw [hm] at h1
    obtain ⟨s, hs, hys⟩ := h1
    exact .inr ⟨y, s, rfl, hs, hys⟩

/-- **ES specification = IR semantics, the leftmost search, no fuel proviso**
(`lower_search_total` without the restriction on named back-references). -/
theorem lower_search_total_dup {f : ES.Flags} {a : ES.Node} {r : Regex} {inp : Input} {cs : List Nat}
    (hsup : supportedDup (normalize a) (irFlags f) (normalize a) = true)
    (hnames : ∃ names, ES.groupNames (normalize a) = .ok names)
    (hir : toIR f a = .ok r) (ht : Utf8Text inp cs) (hiu : inp.unicode = (f.u || f.v)) (start : Nat)
    (hs : start ≤ cs.length) (fuel : Nat) (hfuel : ES.esFuelBound a cs.length ≤ fuel) :
    (ES.esExec f a cs.toArray start fuel = .noMatch ∧ semFind inp r.node (Utf8.off cs start) = none) ∨
    (∃ s e caps st, ES.esExec f a cs.toArray start fuel = .matched s e caps ∧
      semFind inp r.node (Utf8.off cs start) = some (Utf8.off cs s, st) ∧ s ≤ cs.length ∧
      Rel cs ⟨e, caps⟩ st) := by
  have h1 := lower_search_partial_dup hsup hnames hir ht hiu start hs fuel
  have h0 := ES.esExec_terminates f a cs start fuel hfuel
  simp only [SearchAgrees] at h1
  cases hm : ES.esExec f a cs.toArray start fuel with
  | outOfFuel => exact absurd hm h0
  | noMatch =>
    rw [hm] at h1
    exact .inl ⟨rfl, h1⟩
  | matched s e caps =>
    rw [hm] at h1
    obtain ⟨st, hq, hsl, hrel⟩ := h1
    exact .inr ⟨s, e, caps, st, rfl, hq, hsl, hrel⟩

/-- **`lower_attempt_total` for every AST the early-error rules accept** (`ES.validate f a = none`
instead of the rule on names of the normal form). -/
theorem lower_attempt_total_dup_valid {f : ES.Flags} {a : ES.Node} {r : Regex} {inp : Input} {cs : List Nat}
    (hsup : supportedDup (normalize a) (irFlags f) (normalize a) = true) (hval : ES.validate f a = none)
    (hir : toIR f a = .ok r) (ht : Utf8Text inp cs) (hiu : inp.unicode = (f.u || f.v)) (i : Nat)
    (hi : i ≤ cs.length) (fuel : Nat) (hfuel : ES.esFuelBound a cs.length ≤ fuel) :
    (ES.matchAt cs.toArray a (ES.RER.ofFlags f (ES.countParens a)) fuel i = .failure ∧
      firstMatch inp r.node (Utf8.off cs i) = none) ∨
    (∃ y s, ES.matchAt cs.toArray a (ES.RER.ofFlags f (ES.countParens a)) fuel i = .success y ∧
      firstMatch inp r.node (Utf8.off cs i) = some s ∧ Rel cs y s) :=
  lower_attempt_total_dup hsup (ES.groupNames_normalize_of_validate hval) hir ht hiu i hi fuel hfuel

/-- **`lower_search_total` for every AST the early-error rules accept.** -/
theorem lower_search_total_dup_valid {f : ES.Flags} {a : ES.Node} {r : Regex} {inp : Input} {cs : List Nat}
    (hsup : supportedDup (normalize a) (irFlags f) (normalize a) = true) (hval : ES.validate f a = none)
    (hir : toIR f a = .ok r) (ht : Utf8Text inp cs) (hiu : inp.unicode = (f.u || f.v)) (start : Nat)
    (hs : start ≤ cs.length) (fuel : Nat) (hfuel : ES.esFuelBound a cs.length ≤ fuel) :
    (ES.esExec f a cs.toArray start fuel = .noMatch ∧ semFind inp r.node (Utf8.off cs start) = none) ∨
    (∃ s e caps st, ES.esExec f a cs.toArray start fuel = .matched s e caps ∧
      semFind inp r.node (Utf8.off cs start) = some (Utf8.off cs s, st) ∧ s ≤ cs.length ∧
      Rel cs ⟨e, caps⟩ st) :=
  lower_search_total_dup hsup (ES.groupNames_normalize_of_validate hval) hir ht hiu start hs fuel hfuel

/-- `supported` implies `supportedDup`: the new theorems subsume the old ones. -/
theorem supportedDup_of_supported (p : ES.Node) (n : ES.Node) :
    ∀ fl, supported p fl n = true → supportedDup p fl n = true := by
  induction n using ES.Node.rec
    (motive_2 := fun ns => ∀ fl, supportedList p fl ns = true → supportedDupList p fl ns = true) with
  | cat ns ih => intro fl h; simp only [supported] at h; simp only [supportedDup]; exact ih fl h
  | alt ns ih => intro fl h; simp only [supported] at h; simp only [supportedDup]; exact ih fl h
  | group idx name n ih => intro fl h; simp only [supported] at h; simp only [supportedDup]; exact ih fl h
  | nc n ih => intro fl h; simp only [supported] at h; simp only [supportedDup]; exact ih fl h
  | mod a r n ih => intro fl h; simp only [supported] at h; simp only [supportedDup]; exact ih _ h
  | look a g n ih => intro fl h; simp only [supported] at h; simp only [supportedDup]; exact ih fl h
  | quant mn mx g n ih => intro fl h; simp only [supported] at h; simp only [supportedDup]; exact ih fl h
  | nref name =>
    intro fl h
    simp only [supported, Bool.and_eq_true] at h
    simp only [supportedDup]; exact h.1
  | nil => rfl
  | cons a as iha ihas =>
    rename_i fl h
    simp only [supportedList, Bool.and_eq_true] at h
    simp only [supportedDupList, iha fl h.1, ihas fl h.2, Bool.and_self]
  | _ => intro fl h; simp only [supported] at h; simp only [supportedDup, h]

/-! ## Non-vacuity -/

/-- the name `n` -/
def exName : List Nat := [0x6E]

/-- `/(?<n>a)|(?<n>b)\k<n>/` -/
def exDupAlt : ES.Node :=
  .alt [.group 1 (some exName) (.char 0x61), .cat [.group 2 (some exName) (.char 0x62), .nref exName]]

/-- `/(?:(?<n>a)|(?<n>b))*\k<n>/`: both groups are set in *different iterations*; `RepeatMatcher`
resets them (as the crate's loop does), so still at most one is defined at `\k<n>`. -/
def exDupLoop : ES.Node :=
  .cat [.quant 0 none true (.nc (.alt [.group 1 (some exName) (.char 0x61), .group 2 (some exName) (.char 0x62)])),
        .nref exName]

/-- `/(?<=\k<n>(?:(?<n>k)|(?<n>b)))c/iu`: backward, case-insensitive. -/
def exDupBack : ES.Node :=
  .cat [.look false false (.cat [.nref exName,
          .nc (.alt [.group 1 (some exName) (.char 0x6B), .group 2 (some exName) (.char 0x62)])]), .char 0x63]

theorem exDupAlt_nf : normalize exDupAlt = exDupAlt := by rfl
theorem exDupLoop_nf : normalize exDupLoop = exDupLoop := by rfl
theorem exDupBack_nf : normalize exDupBack = exDupBack := by rfl

/-- The name really is duplicated (so the old theorems do not apply: `supported` is `false`)… -/
example : ES.groupSpecifiersThatMatch exDupAlt exName = [1, 2] := by decide
example : supported exDupAlt (irFlags {}) exDupAlt = false := by decide
example : supported exDupLoop (irFlags {}) exDupLoop = false := by decide
example : supported exDupBack (irFlags { i := true, u := true }) exDupBack = false := by decide +kernel

/-- …the new hypotheses hold… -/
theorem exDupAlt_sup : supportedDup exDupAlt (irFlags {}) exDupAlt = true := by decide
theorem exDupLoop_sup : supportedDup exDupLoop (irFlags {}) exDupLoop = true := by decide
theorem exDupBack_sup : supportedDup exDupBack (irFlags { i := true, u := true }) exDupBack = true := by
  decide +kernel
theorem exDupAlt_names : ∃ names, ES.groupNames exDupAlt = .ok names := ⟨_, rfl⟩
theorem exDupLoop_names : ∃ names, ES.groupNames exDupLoop = .ok names := ⟨_, rfl⟩
theorem exDupBack_names : ∃ names, ES.groupNames exDupBack = .ok names := ⟨_, rfl⟩
example : ES.validate {} exDupAlt = none := by decide
example : ES.validate {} exDupLoop = none := by decide
example : ES.validate { i := true, u := true } exDupBack = none := by decide

/-- …and the early-error rule is what rejects the same name twice in one alternative. -/
example : ES.groupNames (.cat [.group 1 (some exName) (.char 0x61), .group 2 (some exName) (.char 0x62)]) =
    .error "duplicate group name" := by rfl

/-- The IR the parser builds for `\k<n>` here is `Cat [BackRef 1, BackRef 2]`. -/
example : lowerNode exDupAlt 2 (.nref exName) (irFlags {}) 2 = .ok (.cat [.backRef 1 false, .backRef 2 false]) := by
  rfl

def exDupInp (cs : List Nat) (u : Bool) : Input := { kind := .utf8, bytes := Utf8.text cs, unicode := u }

theorem exDupInp_text_bb : Utf8Text (exDupInp [0x62, 0x62] false) [0x62, 0x62] := ⟨rfl, rfl, by decide⟩
theorem exDupInp_text_abb : Utf8Text (exDupInp [0x61, 0x62, 0x62] false) [0x61, 0x62, 0x62] := ⟨rfl, rfl, by decide⟩
theorem exDupInp_text_K : Utf8Text (exDupInp [0x212A, 0x4B, 0x63] true) [0x212A, 0x4B, 0x63] := ⟨rfl, rfl, by decide⟩

/-- `lower_attempt_total_dup` applies to `/(?<n>a)|(?<n>b)\k<n>/` on "bb" at 0 … -/
example (r : Regex) (h : toIR {} exDupAlt = .ok r) (fuel : Nat) :
    (ES.matchAt ([0x62, 0x62] : List Nat).toArray exDupAlt (ES.RER.ofFlags {} (ES.countParens exDupAlt)) fuel 0 =
        .failure ∧ firstMatch (exDupInp [0x62, 0x62] false) r.node (Utf8.off [0x62, 0x62] 0) = none) ∨
    (∃ y s, ES.matchAt ([0x62, 0x62] : List Nat).toArray exDupAlt (ES.RER.ofFlags {} (ES.countParens exDupAlt)) fuel 0 =
        .success y ∧ firstMatch (exDupInp [0x62, 0x62] false) r.node (Utf8.off [0x62, 0x62] 0) = some s ∧
        Rel [0x62, 0x62] y s) :=
  lower_attempt_total_dup (by rw [exDupAlt_nf]; exact exDupAlt_sup) (by rw [exDupAlt_nf]; exact exDupAlt_names) h
    exDupInp_text_bb rfl 0 (by decide) fuel
    (by
      have : ES.esFuelBound exDupAlt ([0x62, 0x62] : List Nat).length = 0 := by decide
      rw [this]; exact Nat.zero_le _)

/-- … where both models are evaluated: the specification finds `0..2` with group 2 = `0..1` … -/
example : ES.matchAt #[0x62, 0x62] exDupAlt (ES.RER.ofFlags {} 2) 0 0 = .success ⟨2, [none, some (0, 1)]⟩ := by
  decide +kernel
/-- … and the IR semantics of the IR `toIR` builds finds the same. -/
example : (match toIR {} exDupAlt with
    | .ok r => (firstMatch (exDupInp [0x62, 0x62] false) r.node 0).map (fun s => (s.pos, s.caps))
    | .error _ => none) = some (2, [(none, none), (some 0, some 1)]) := by decide +kernel

/-- `/(?:(?<n>a)|(?<n>b))*\k<n>/` on "abb": iteration 1 sets group 1, iteration 2 resets it and sets
group 2, `\k<n>` then matches the second "b": `0..3`, group 1 unset, group 2 = `1..2`, on both sides. -/
example : ES.esExec {} exDupLoop #[0x61, 0x62, 0x62] 0 (ES.esFuelBound exDupLoop 3) =
    .matched 0 3 [none, some (1, 2)] := by decide +kernel
example : (match toIR {} exDupLoop with
    | .ok r => (semFind (exDupInp [0x61, 0x62, 0x62] false) r.node 0).map (fun q => (q.1, q.2.pos, q.2.caps))
    | .error _ => none) = some (0, 3, [(none, none), (some 1, some 2)]) := by decide +kernel
/-- on "aba" the back-reference (to "b") fails after two iterations, then (to "a") after one; the
match is the empty one at 0, on both sides. -/
example : ES.esExec {} exDupLoop #[0x61, 0x62, 0x61] 0 (ES.esFuelBound exDupLoop 3) =
    .matched 0 0 [none, none] := by decide +kernel
example : (match toIR {} exDupLoop with
    | .ok r => (semFind (exDupInp [0x61, 0x62, 0x61] false) r.node 0).map (fun q => (q.1, q.2.pos, q.2.caps))
    | .error _ => none) = some (0, 0, [(none, none), (none, none)]) := by decide +kernel

example (r : Regex) (h : toIR {} exDupLoop = .ok r) (fuel : Nat) (hfuel : ES.esFuelBound exDupLoop 3 ≤ fuel) :
    (ES.esExec {} exDupLoop ([0x61, 0x62, 0x62] : List Nat).toArray 0 fuel = .noMatch ∧
      semFind (exDupInp [0x61, 0x62, 0x62] false) r.node (Utf8.off [0x61, 0x62, 0x62] 0) = none) ∨
    (∃ s e caps st, ES.esExec {} exDupLoop ([0x61, 0x62, 0x62] : List Nat).toArray 0 fuel = .matched s e caps ∧
      semFind (exDupInp [0x61, 0x62, 0x62] false) r.node (Utf8.off [0x61, 0x62, 0x62] 0) =
        some (Utf8.off [0x61, 0x62, 0x62] s, st) ∧
      s ≤ ([0x61, 0x62, 0x62] : List Nat).length ∧ Rel [0x61, 0x62, 0x62] ⟨e, caps⟩ st) :=
  lower_search_total_dup (by rw [exDupLoop_nf]; exact exDupLoop_sup) (by rw [exDupLoop_nf]; exact exDupLoop_names) h
    exDupInp_text_abb rfl 0 (by decide) fuel hfuel

/-- Backward: `/(?<=\k<n>(?:(?<n>a)|(?<n>b)))c/` on "aac": the look-behind reads "a" into group 1 and
then `\k<n>` matches the first "a" against it: `2..3` with group 1 = `1..2`, on both sides; on "abc"
neither side matches. -/
def exDupBackA : ES.Node :=
  .cat [.look false false (.cat [.nref exName,
          .nc (.alt [.group 1 (some exName) (.char 0x61), .group 2 (some exName) (.char 0x62)])]), .char 0x63]

example : ES.esExec {} exDupBackA #[0x61, 0x61, 0x63] 0 1 = .matched 2 3 [some (1, 2), none] := by decide +kernel
example : (match toIR {} exDupBackA with
    | .ok r => (semFind (exDupInp [0x61, 0x61, 0x63] false) r.node 0).map (fun q => (q.1, q.2.pos, q.2.caps))
    | .error _ => none) = some (2, 3, [(some 1, some 2), (none, none)]) := by decide +kernel
example : ES.esExec {} exDupBackA #[0x61, 0x62, 0x63] 0 1 = .noMatch := by decide +kernel
example : (match toIR {} exDupBackA with
    | .ok r => (semFind (exDupInp [0x61, 0x62, 0x63] false) r.node 0).map (fun q => (q.1, q.2.pos, q.2.caps))
    | .error _ => none) = none := by decide +kernel

/-- Backward and case-insensitive, `/(?<=\k<n>(?:(?<n>k)|(?<n>b)))c/iu` on U+212A `K` `c`: the
theorems apply for every start and fuel (the case-folding tables do not evaluate in the kernel, so no
closed evaluation here; `#eval` of both models gives `2..3` with group 1 = `1..2`). -/
example (r : Regex) (h : toIR { i := true, u := true } exDupBack = .ok r) (fuel : Nat) (start : Nat) (hs : start ≤ 3) :
    SearchAgrees [0x212A, 0x4B, 0x63] (ES.esExec { i := true, u := true } exDupBack
        ([0x212A, 0x4B, 0x63] : List Nat).toArray start fuel)
      (semFind (exDupInp [0x212A, 0x4B, 0x63] true) r.node (Utf8.off [0x212A, 0x4B, 0x63] start)) :=
  lower_search_partial_dup (by rw [exDupBack_nf]; exact exDupBack_sup) (by rw [exDupBack_nf]; exact exDupBack_names) h
    exDupInp_text_K rfl start hs fuel

/-- `lower_search_total_dup_valid` on a non-normal AST: `/(?:(?<n>a)|(?<n>b))*(?:\k<n>)/` written with a
nested `cat` (`normalize` flattens it). -/
example (r : Regex)
    (h : toIR {} (.cat [.cat [exDupLoop], .empty]) = .ok r) (fuel : Nat)
    (hfuel : ES.esFuelBound (.cat [.cat [exDupLoop], .empty]) 3 ≤ fuel) :
    (ES.esExec {} (.cat [.cat [exDupLoop], .empty]) ([0x61, 0x62, 0x62] : List Nat).toArray 0 fuel = .noMatch ∧
      semFind (exDupInp [0x61, 0x62, 0x62] false) r.node (Utf8.off [0x61, 0x62, 0x62] 0) = none) ∨
    (∃ s e caps st, ES.esExec {} (.cat [.cat [exDupLoop], .empty]) ([0x61, 0x62, 0x62] : List Nat).toArray 0 fuel =
        .matched s e caps ∧
      semFind (exDupInp [0x61, 0x62, 0x62] false) r.node (Utf8.off [0x61, 0x62, 0x62] 0) =
        some (Utf8.off [0x61, 0x62, 0x62] s, st) ∧
      s ≤ ([0x61, 0x62, 0x62] : List Nat).length ∧ Rel [0x61, 0x62, 0x62] ⟨e, caps⟩ st) :=
  lower_search_total_dup_valid (by decide) (by decide) h exDupInp_text_abb rfl 0 (by decide) fuel hfuel

/-- The invariant on a concrete run: after `/(?:(?<n>a)|(?<n>b))*\k<n>/` on "abb" only group 2 is
defined (`es_atMostOne_success` says: never both). -/
example (y : ES.State) (fuel : Nat)
    (hy : ES.matchAt #[0x61, 0x62, 0x62] exDupLoop (ES.RER.ofFlags {} 2) fuel 0 = .success y) :
    ¬ (ES.getCapture y.captures 1 ≠ none ∧ ES.getCapture y.captures 2 ≠ none) := fun ⟨h1, h2⟩ =>
  absurd (es_atMostOne_success #[0x61, 0x62, 0x62] (p := exDupLoop) rfl _ fuel 0 y hy 1 2 exName
    (by decide) (by decide) h1 h2) (by decide)

end Regress.Lower

#print axioms Regress.Lower.es_atMostOne_threaded
#print axioms Regress.Lower.es_atMostOne_success
#print axioms Regress.Lower.nref_dup_spec
#print axioms Regress.Lower.nref_dup_agree
#print axioms Regress.Lower.lower_attempt_partial_dup
#print axioms Regress.Lower.lower_attempt_ast_partial_dup
#print axioms Regress.Lower.lower_search_partial_dup
#print axioms Regress.Lower.lower_attempt_total_dup
#print axioms Regress.Lower.lower_search_total_dup
#print axioms Regress.Lower.lower_attempt_total_dup_valid
#print axioms Regress.Lower.lower_search_total_dup_valid
#print axioms Regress.Lower.supportedDup_of_supported
