import Proofs.Lower
import Proofs.Keystone
/-!
# The chain "ES specification ⇒ compiled program"

`Proofs/Lower.lean` (specification Matcher of the AST = `firstMatch` of the IR the parser builds),
`Proofs/C03.lean` (the optimizer preserves `firstMatch`) and `Proofs/Keystone.lean` (`firstMatch` of
the emitted IR = one PikeVM attempt on the emitted program) compose: one anchored attempt of the
specification and one attempt of the PikeVM on the program compiled for the same pattern have the
same outcome.

The hypotheses that are not about the AST are the ones of `keystone_optimized`: they are decidable
certificates about the concrete trees (`WF`, `rootOK`, the group and loop counts) and the proviso
`Fine` (the VM attempt ends neither out of ticks nor in an error; discharged by `Proofs/C06.lean` /
`Proofs/C05.lean` under their own certificates, see `keystone_attempt_safe`, `keystone_attempt_total`).
-/
namespace Regress.Lower

open Regress Regress.IR Regress.VM Regress.Keystone

/-- **ES specification ⇒ PikeVM on the compiled program (one anchored attempt).**
Partial: the AST must lie in the fragment `supported` (see `Proofs/Lower.lean`). -/
theorem spec_to_pikevm_partial {f : ES.Flags} {a : ES.Node} {r r' : Regex} {prog : Prog} {inp : Input}
    {cs : List Nat} {ofuel : Nat}
    (hsup : supported (normalize a) (irFlags f) (normalize a) = true)
    (hir : toIR f a = .ok r) (hopt : optimize ofuel r = .ok r') (he : emit r' = .ok prog)
    (hw : WF r.node) (hroot : rootOK r'.node = true) (hu : r'.flags.unicode = inp.unicode)
    (hiu : inp.unicode = (f.u || f.v))
    (hng : numGroups r.node < 4294967296) (hnl : numLoops r'.node ≤ 65536)
    (ht : Utf8Text inp cs) (i : Nat) (hi : i ≤ cs.length) (fuelES fuelVM : Nat)
    (hf : Fine (Pk.attempt prog inp fuelVM (Utf8.off cs i))) :
    match ES.matchAt cs.toArray a (ES.RER.ofFlags f (ES.countParens a)) fuelES i with
    | .outOfFuel => True
    | .failure => ∃ steps peak, Pk.attempt prog inp fuelVM (Utf8.off cs i) = .failed steps peak
    | .success y => ∃ st steps peak,
        Pk.attempt prog inp fuelVM (Utf8.off cs i) = .matched (Utf8.off cs y.endIndex) st steps peak ∧
        Rel cs y { pos := Utf8.off cs y.endIndex, caps := capsOfState st } := by
  have h1 := lower_attempt_ast_partial hsup hir ht hiu i hi fuelES
  have h2 := keystone_optimized hopt he hw hu hroot hng hnl ht ⟨i, hi, rfl⟩ fuelVM hf
  unfold AttemptAgrees at h1
  cases hm : ES.matchAt cs.toArray a (ES.RER.ofFlags f (ES.countParens a)) fuelES i with
  | outOfFuel => trivial
  | failure =>
    rw [hm] at h1
    simp only [ResRel] at h1
    rw [h1] at h2
    exact h2
  | success y =>
    rw [hm] at h1
    obtain ⟨s, hs, hys⟩ := h1
    rw [hs] at h2
    obtain ⟨st, steps, peak, hatt, hcaps⟩ := h2
    refine ⟨st, steps, peak, by rw [hatt, hys.pos], ?_⟩
    rw [hcaps]
    exact ⟨hys.idx, rfl, hys.len, hys.caps⟩


/-! ## Non-vacuity -/

/-- `/(a|bc)\1/` -/
def exChainAst : ES.Node :=
  .cat [.group 1 none (.alt [.char 0x61, .cat [.char 0x62, .char 0x63]]), .bref 1]

/-- every hypothesis of `spec_to_pikevm_partial` that is a computation, as one Boolean -/
def exChainCheck : Bool :=
  match toIR {} exChainAst with
  | .error _ => false
  | .ok r =>
    match optimize 1000 r with
    | .error _ => false
    | .ok r' =>
      match emit r' with
      | .error _ => false
      | .ok _ =>
        wfNode r.node && rootOK r'.node && !r'.flags.unicode && decide (numGroups r.node < 4294967296) &&
          decide (numLoops r'.node ≤ 65536)

theorem exChainCheck_ok : exChainCheck = true := by decide +kernel

theorem exChain_supported : supported (normalize exChainAst) (irFlags {}) (normalize exChainAst) = true := by
  decide +kernel

/-- The chain theorem applies to `/(a|bc)\1/` on "bcbc" at index 0 (for every pair of budgets for
which the VM attempt is `Fine`). -/
example : ∃ r r' prog, toIR {} exChainAst = .ok r ∧ optimize 1000 r = .ok r' ∧ emit r' = .ok prog ∧
    ∀ (fuelES fuelVM : Nat), Fine (Pk.attempt prog Keystone.exInp fuelVM (Utf8.off [0x62, 0x63, 0x62, 0x63] 0)) →
      match ES.matchAt ([0x62, 0x63, 0x62, 0x63] : List Nat).toArray exChainAst
          (ES.RER.ofFlags {} (ES.countParens exChainAst)) fuelES 0 with
      | .outOfFuel => True
      | .failure => ∃ steps peak,
          Pk.attempt prog Keystone.exInp fuelVM (Utf8.off [0x62, 0x63, 0x62, 0x63] 0) = .failed steps peak
      | .success y => ∃ st steps peak,
          Pk.attempt prog Keystone.exInp fuelVM (Utf8.off [0x62, 0x63, 0x62, 0x63] 0) =
            .matched (Utf8.off [0x62, 0x63, 0x62, 0x63] y.endIndex) st steps peak ∧
          Rel [0x62, 0x63, 0x62, 0x63] y
            { pos := Utf8.off [0x62, 0x63, 0x62, 0x63] y.endIndex, caps := capsOfState st } := by
  have hc := exChainCheck_ok
  unfold exChainCheck at hc
  cases h1 : toIR {} exChainAst with
  | error e => rw [h1] at hc; cases hc
  | ok r =>
    rw [h1] at hc
    simp only at hc
    cases h2 : optimize 1000 r with
    | error e => rw [h2] at hc; cases hc
    | ok r' =>
      rw [h2] at hc
      simp only at hc
      cases h3 : emit r' with
      | error e => rw [h3] at hc; cases hc
      | ok prog =>
        rw [h3] at hc
        simp only [Bool.and_eq_true, Bool.not_eq_true', decide_eq_true_eq] at hc
        obtain ⟨⟨⟨⟨hwf, hroot⟩, hu⟩, hng⟩, hnl⟩ := hc
        refine ⟨r, r', prog, rfl, h2, h3, fun fuelES fuelVM hf => ?_⟩
        exact spec_to_pikevm_partial exChain_supported h1 h2 h3 (wfNode_sound _ hwf) hroot
          (by rw [hu]; rfl) rfl hng hnl Keystone.exInp_text 0 (by decide) fuelES fuelVM hf

end Regress.Lower

#print axioms Regress.Lower.spec_to_pikevm_partial
