import Proofs.Lemmas.Termination
/-!
# C05 — every search of the two bytecode interpreter models terminates with bounded backtracking state

Models: `RegressModel/VM/Backtrack.lean` (`Regress.VM.Bt`, of `src/classicalbacktrack.rs`) and
`RegressModel/VM/Pike.lean` (`Regress.VM.Pk`, of `src/pikevm.rs`). Helper lemmas:
`Proofs/Lemmas/Termination.lean`.

Both interpreters take a *tick budget* (`limit`; one tick per iteration of the main loop, nested
look-around runs included) and a structural fuel `sf`, and return `.outOfFuel` when either is
exhausted. "Terminates" = some budget computable from the program and the haystack length suffices
(the outcome is not `.outOfFuel`; `.error` outcomes count as terminating).

* §(a) fuel monotonicity: an outcome other than `.outOfFuel` is independent of the fuels.
* §(c) the stack bound: `peak` (the maximum size of the backtrack stack / state stack seen at a
  tick) is bounded linearly by the number of ticks.
* §(b) forward (loop-free) programs terminate within `(L + 3)^(n + 1)` ticks per attempt
  (`n` instructions, `L` haystack bytes).
-/

namespace Regress.C05
open Regress.VM

/-! ## Example programs (copied from `rvharness probe` dumps) -/

/-- `(?=(a))a*b|c` -/
def progLookLoop1 : Prog :=
  { insns := #[.alt 10, .lookahead false 0 1 6, .beginCaptureGroup 0, .byteSeq [0x61],
               .endCaptureGroup 0, .goal, .loop1 0 none true, .byteSeq [0x61], .byteSeq [0x62],
               .jump 11, .byteSeq [0x63], .goal],
    brackets := #[], loops := 0, groups := 1, flags := {}, names := [], startPred := .arbitrary }

/-- `(?<!b)a+?b` -/
def progLookbehind : Prog :=
  { insns := #[.lookbehind true 0 0 3, .byteSeq [0x62], .goal, .byteSeq [0x61],
               .loop1 0 none false, .byteSeq [0x61], .byteSeq [0x62], .goal],
    brackets := #[], loops := 0, groups := 0, flags := {}, names := [], startPred := .set [0x61] }

/-- `(a|b)*c` (a program with a general loop) -/
def progLoop : Prog :=
  { insns := #[.enterLoop 0 0 none true 9, .resetCaptureGroup 0, .beginCaptureGroup 0, .alt 6,
               .byteSeq [0x61], .jump 7, .byteSeq [0x62], .endCaptureGroup 0, .loopAgain 0,
               .byteSeq [0x63], .goal],
    brackets := #[], loops := 1, groups := 1, flags := {}, names := [], startPred := .arbitrary }

/-- The haystack `aab`. -/
def hayAab : Input := { kind := .utf8, bytes := #[0x61, 0x61, 0x62], unicode := false }

/-! ## (a) Fuel monotonicity -/

/-- **Backtracker, general form.** If `Bt.run` returns anything other than `.outOfFuel` with fuels
`(limit, sf)`, it returns the same outcome with any larger fuels (arbitrary machine state). -/
theorem bt_run_fuel_mono (prog : Prog) (inp : Input) (limit limit' sf sf' : Nat)
    (hl : limit ≤ limit') (hs : sf ≤ sf')
    (ip pos : Nat) (fwd : Bool) (st : Bt.State) (bts : Array Bt.BtInsn) (steps peak : Nat)
    (h : Bt.run prog inp limit sf ip pos fwd st bts steps peak ≠ .outOfFuel) :
    Bt.run prog inp limit' sf' ip pos fwd st bts steps peak
      = Bt.run prog inp limit sf ip pos fwd st bts steps peak :=
  Bt.run_fuel_mono prog inp hl sf sf' hs ip pos fwd st bts steps peak h

/-- Non-vacuity: a program with a general loop, `(a|b)*c` on `aab`, finishes within 40 ticks. -/
example : (Bt.run progLoop hayAab 40 40 0 0 true (Bt.freshState progLoop 0) #[.exhausted] 0 0).summary
    = .failed 33 24 := by decide +kernel

/-- `Bt.tryAtPos`. -/
theorem bt_tryAtPos_fuel_mono (prog : Prog) (inp : Input) (fuel fuel' : Nat) (hf : fuel ≤ fuel')
    (ip pos : Nat) (fwd : Bool) (st : Bt.State)
    (h : Bt.tryAtPos prog inp fuel ip pos fwd st ≠ .outOfFuel) :
    Bt.tryAtPos prog inp fuel' ip pos fwd st = Bt.tryAtPos prog inp fuel ip pos fwd st :=
  Bt.tryAtPos_fuel_mono prog inp hf ip pos fwd st h

/-- `Bt.attempt` (= `classicalbacktrack::verif_attempt`). -/
theorem bt_attempt_fuel_mono (prog : Prog) (inp : Input) (fuel fuel' : Nat) (hf : fuel ≤ fuel')
    (pos : Nat) (h : Bt.attempt prog inp fuel pos ≠ .outOfFuel) :
    Bt.attempt prog inp fuel' pos = Bt.attempt prog inp fuel pos :=
  Bt.attempt_fuel_mono prog inp hf pos h

example : (Bt.attempt progLookLoop1 hayAab 20 0).summary = .matched 3 10 4 := by decide +kernel
example : Bt.attempt progLookLoop1 hayAab 20 0 ≠ .outOfFuel :=
  Bt.Outcome.ne_outOfFuel_of_summary (by decide +kernel)
/-- … and the hypothesis is needed: with 5 ticks the same attempt runs out of fuel. -/
example : (Bt.attempt progLookLoop1 hayAab 5 0).summary = .outOfFuel := by decide +kernel



/-- **PikeVM, one instruction.** `Pk.tryMatchState` is monotone in its nested-attempt runner with
respect to `look ≼ look'` (`Pk.Runner.le`: wherever `look` does not run out of fuel, `look'` agrees). -/
theorem pk_tryMatchState_mono (prog : Prog) (inp : Input) (look look' : Pk.Runner)
    (hle : ∀ s d steps peak, look s d steps peak ≠ .outOfFuel →
      look' s d steps peak = look s d steps peak)
    (d : Nat) (s : Pk.State) (fwd : Bool) (steps peak : Nat)
    (h : Pk.tryMatchState prog inp look d s fwd steps peak ≠ .outOfFuel) :
    Pk.tryMatchState prog inp look' d s fwd steps peak
      = Pk.tryMatchState prog inp look d s fwd steps peak :=
  Pk.tryMatchState_mono prog inp hle d s fwd steps peak h

/-- **PikeVM, general form.** -/
theorem pk_runStates_fuel_mono (prog : Prog) (inp : Input) (limit limit' sf sf' : Nat)
    (hl : limit ≤ limit') (hs : sf ≤ sf')
    (states : Array Pk.State) (fwd : Bool) (steps peak : Nat)
    (h : Pk.runStates prog inp limit sf states fwd steps peak ≠ .outOfFuel) :
    Pk.runStates prog inp limit' sf' states fwd steps peak
      = Pk.runStates prog inp limit sf states fwd steps peak :=
  Pk.runStates_fuel_mono prog inp hl sf sf' hs states fwd steps peak h

example : (Pk.runStates progLoop hayAab 40 40 #[Pk.initState progLoop 0 0] true 0 0).summary
    = .failed 33 8 := by decide +kernel

/-- `Pk.tryAtPos`. -/
theorem pk_tryAtPos_fuel_mono (prog : Prog) (inp : Input) (fuel fuel' : Nat) (hf : fuel ≤ fuel')
    (init : Pk.State) (fwd : Bool) (h : Pk.tryAtPos prog inp fuel init fwd ≠ .outOfFuel) :
    Pk.tryAtPos prog inp fuel' init fwd = Pk.tryAtPos prog inp fuel init fwd :=
  Pk.tryAtPos_fuel_mono prog inp hf init fwd h

/-- `Pk.attempt` (= `pikevm::verif_attempt`). -/
theorem pk_attempt_fuel_mono (prog : Prog) (inp : Input) (fuel fuel' : Nat) (hf : fuel ≤ fuel')
    (pos : Nat) (h : Pk.attempt prog inp fuel pos ≠ .outOfFuel) :
    Pk.attempt prog inp fuel' pos = Pk.attempt prog inp fuel pos :=
  Pk.attempt_fuel_mono prog inp hf pos h

example : (Pk.attempt progLookLoop1 hayAab 30 0).summary = .matched 3 12 4 := by decide +kernel
example : Pk.attempt progLookLoop1 hayAab 30 0 ≠ .outOfFuel :=
  Pk.Outcome.ne_outOfFuel_of_summary (by decide +kernel)
example : (Pk.attempt progLookLoop1 hayAab 5 0).summary = .outOfFuel := by decide +kernel



/-! ## Axioms -/

#print axioms bt_run_fuel_mono
#print axioms bt_tryAtPos_fuel_mono
#print axioms bt_attempt_fuel_mono
#print axioms pk_tryMatchState_mono
#print axioms pk_runStates_fuel_mono
#print axioms pk_tryAtPos_fuel_mono
#print axioms pk_attempt_fuel_mono

end Regress.C05
