import Proofs.Lemmas.Termination
/-!
# C05 — every search of the two bytecode interpreter models terminates with bounded backtracking state

Models: `RegressModel/VM/Backtrack.lean` (`Regress.VM.Bt`, of `src/classicalbacktrack.rs`) and
`RegressModel/VM/Pike.lean` (`Regress.VM.Pk`, of `src/pikevm.rs`). Helper lemmas:
`Proofs/Lemmas/Termination.lean`.

Both interpreters take a *tick budget* (`limit`; one tick per iteration of the main loop, nested
look-around runs included) and a structural fuel `sf`, and return `.outOfFuel` when either is
exhausted. "Terminates" = some budget computable from the program and the haystack length suffices
(the outcome is not `.outOfFuel`; `.error` outcomes count as terminating).

* §(a) fuel monotonicity: an outcome other than `.outOfFuel` is independent of the fuels.
* §(c) the stack bound: `peak` (the maximum size of the backtrack stack / state stack seen at a
  tick) is bounded linearly by the number of ticks.
* §(b) forward (loop-free) programs terminate within `(L + 3)^(n + 1)` ticks per attempt
  (`n` instructions, `L` haystack bytes), both executors.
* §(d) PikeVM only: programs with properly nested general loops and `loop1` (no look-arounds)
  terminate within `3 ^ ((L + 1) * (n + 1) * Π (2 * (min + 1) + 2))` ticks per attempt.
* `wfProg` alone does not imply termination (`jump 0`), for either model.
-/

namespace Regress.C05
open Regress.VM

/-! ## Example programs (copied from `rvharness probe` dumps) -/

/-- `(?=(a))a*b|c` -/
def progLookLoop1 : Prog :=
  { insns := #[.alt 10, .lookahead false 0 1 6, .beginCaptureGroup 0, .byteSeq [0x61],
               .endCaptureGroup 0, .goal, .loop1 0 none true, .byteSeq [0x61], .byteSeq [0x62],
               .jump 11, .byteSeq [0x63], .goal],
    brackets := #[], loops := 0, groups := 1, flags := {}, names := [], startPred := .arbitrary }

/-- `(?<!b)a+?b` -/
def progLookbehind : Prog :=
  { insns := #[.lookbehind true 0 0 3, .byteSeq [0x62], .goal, .byteSeq [0x61],
               .loop1 0 none false, .byteSeq [0x61], .byteSeq [0x62], .goal],
    brackets := #[], loops := 0, groups := 0, flags := {}, names := [], startPred := .set [0x61] }

/-- `(a|b)*c` (a program with a general loop) -/
def progLoop : Prog :=
  { insns := #[.enterLoop 0 0 none true 9, .resetCaptureGroup 0, .beginCaptureGroup 0, .alt 6,
               .byteSeq [0x61], .jump 7, .byteSeq [0x62], .endCaptureGroup 0, .loopAgain 0,
               .byteSeq [0x63], .goal],
    brackets := #[], loops := 1, groups := 1, flags := {}, names := [], startPred := .arbitrary }

/-- The haystack `aab`. -/
def hayAab : Input := { kind := .utf8, bytes := #[0x61, 0x61, 0x62], unicode := false }

/-! ## (a) Fuel monotonicity -/

/-- **Backtracker, general form.** If `Bt.run` returns anything other than `.outOfFuel` with fuels
`(limit, sf)`, it returns the same outcome with any larger fuels (arbitrary machine state). -/
theorem bt_run_fuel_mono (prog : Prog) (inp : Input) (limit limit' sf sf' : Nat)
    (hl : limit ≤ limit') (hs : sf ≤ sf')
    (ip pos : Nat) (fwd : Bool) (st : Bt.State) (bts : Array Bt.BtInsn) (steps peak : Nat)
    (h : Bt.run prog inp limit sf ip pos fwd st bts steps peak ≠ .outOfFuel) :
    Bt.run prog inp limit' sf' ip pos fwd st bts steps peak
      = Bt.run prog inp limit sf ip pos fwd st bts steps peak :=
  Bt.run_fuel_mono prog inp hl sf sf' hs ip pos fwd st bts steps peak h

/-- Non-vacuity: a program with a general loop, `(a|b)*c` on `aab`, finishes within 40 ticks. -/
example : (Bt.run progLoop hayAab 40 40 0 0 true (Bt.freshState progLoop 0) #[.exhausted] 0 0).summary
    = .failed 33 24 := by decide +kernel

/-- `Bt.tryAtPos`. -/
theorem bt_tryAtPos_fuel_mono (prog : Prog) (inp : Input) (fuel fuel' : Nat) (hf : fuel ≤ fuel')
    (ip pos : Nat) (fwd : Bool) (st : Bt.State)
    (h : Bt.tryAtPos prog inp fuel ip pos fwd st ≠ .outOfFuel) :
    Bt.tryAtPos prog inp fuel' ip pos fwd st = Bt.tryAtPos prog inp fuel ip pos fwd st :=
  Bt.tryAtPos_fuel_mono prog inp hf ip pos fwd st h

/-- `Bt.attempt` (= `classicalbacktrack::verif_attempt`). -/
theorem bt_attempt_fuel_mono (prog : Prog) (inp : Input) (fuel fuel' : Nat) (hf : fuel ≤ fuel')
    (pos : Nat) (h : Bt.attempt prog inp fuel pos ≠ .outOfFuel) :
    Bt.attempt prog inp fuel' pos = Bt.attempt prog inp fuel pos :=
  Bt.attempt_fuel_mono prog inp hf pos h

example : (Bt.attempt progLookLoop1 hayAab 20 0).summary = .matched 3 10 4 := by decide +kernel
example : Bt.attempt progLookLoop1 hayAab 20 0 ≠ .outOfFuel :=
  Bt.Outcome.ne_outOfFuel_of_summary (by decide +kernel)
/-- … and the hypothesis is needed: with 5 ticks the same attempt runs out of fuel. -/
example : (Bt.attempt progLookLoop1 hayAab 5 0).summary = .outOfFuel := by decide +kernel



/-- **PikeVM, one instruction.** `Pk.tryMatchState` is monotone in its nested-attempt runner with
respect to `look ≼ look'` (`Pk.Runner.le`: wherever `look` does not run out of fuel, `look'` agrees). -/
theorem pk_tryMatchState_mono (prog : Prog) (inp : Input) (look look' : Pk.Runner)
    (hle : ∀ s d steps peak, look s d steps peak ≠ .outOfFuel →
      look' s d steps peak = look s d steps peak)
    (d : Nat) (s : Pk.State) (fwd : Bool) (steps peak : Nat)
    (h : Pk.tryMatchState prog inp look d s fwd steps peak ≠ .outOfFuel) :
    Pk.tryMatchState prog inp look' d s fwd steps peak
      = Pk.tryMatchState prog inp look d s fwd steps peak :=
  Pk.tryMatchState_mono prog inp hle d s fwd steps peak h

/-- **PikeVM, general form.** -/
theorem pk_runStates_fuel_mono (prog : Prog) (inp : Input) (limit limit' sf sf' : Nat)
    (hl : limit ≤ limit') (hs : sf ≤ sf')
    (states : Array Pk.State) (fwd : Bool) (steps peak : Nat)
    (h : Pk.runStates prog inp limit sf states fwd steps peak ≠ .outOfFuel) :
    Pk.runStates prog inp limit' sf' states fwd steps peak
      = Pk.runStates prog inp limit sf states fwd steps peak :=
  Pk.runStates_fuel_mono prog inp hl sf sf' hs states fwd steps peak h

example : (Pk.runStates progLoop hayAab 40 40 #[Pk.initState progLoop 0 0] true 0 0).summary
    = .failed 33 8 := by decide +kernel

/-- `Pk.tryAtPos`. -/
theorem pk_tryAtPos_fuel_mono (prog : Prog) (inp : Input) (fuel fuel' : Nat) (hf : fuel ≤ fuel')
    (init : Pk.State) (fwd : Bool) (h : Pk.tryAtPos prog inp fuel init fwd ≠ .outOfFuel) :
    Pk.tryAtPos prog inp fuel' init fwd = Pk.tryAtPos prog inp fuel init fwd :=
  Pk.tryAtPos_fuel_mono prog inp hf init fwd h

/-- `Pk.attempt` (= `pikevm::verif_attempt`). -/
theorem pk_attempt_fuel_mono (prog : Prog) (inp : Input) (fuel fuel' : Nat) (hf : fuel ≤ fuel')
    (pos : Nat) (h : Pk.attempt prog inp fuel pos ≠ .outOfFuel) :
    Pk.attempt prog inp fuel' pos = Pk.attempt prog inp fuel pos :=
  Pk.attempt_fuel_mono prog inp hf pos h

example : (Pk.attempt progLookLoop1 hayAab 30 0).summary = .matched 3 12 4 := by decide +kernel
example : Pk.attempt progLookLoop1 hayAab 30 0 ≠ .outOfFuel :=
  Pk.Outcome.ne_outOfFuel_of_summary (by decide +kernel)
example : (Pk.attempt progLookLoop1 hayAab 5 0).summary = .outOfFuel := by decide +kernel



/-! ## (c) The stack bound -/

/-- Local fact 1: one instruction (`Bt.step`) that continues grows the backtrack stack by at most 3
records (`enterLoop`, greedy: `SetLoopData`, `SetPosition`, `SetLoopData`); one that backtracks by at
most 1 (`enterLoop` whose `run_loop` fails has pushed its `SetLoopData`). -/
theorem bt_step_size (prog : Prog) (inp : Input) (ip pos : Nat) (fwd : Bool) (st : Bt.State)
    (bts : Array Bt.BtInsn) :
    (∀ ip' p st' bts', Bt.step prog inp ip pos fwd st bts = .cont ip' p st' bts' →
      bts'.size ≤ bts.size + 3) ∧
    (∀ st' bts', Bt.step prog inp ip pos fwd st bts = .back st' bts' → bts'.size ≤ bts.size + 1) :=
  ⟨fun _ _ _ _ h => Bt.step_cont_size h, fun _ _ h => Bt.step_back_size h⟩

example : Bt.step progLoop hayAab 0 0 true (Bt.freshState progLoop 0) #[.exhausted]
    = .cont 1 0 { loops := #[{ iters := 1, entry := 0 }], groups := #[{ start := none, end_ := none }] }
        #[.exhausted, .setLoopData 0 { iters := 0, entry := 0 }, .setPosition 9 0,
          .setLoopData 0 { iters := 0, entry := 0 }] := by rfl

/-- Local fact 2: a resuming `try_backtrack` grows the stack by at most 1 (the `EnterNonGreedyLoop`
record is replaced and one `SetLoopData` is pushed). -/
theorem bt_tryBacktrack_size (prog : Prog) (inp : Input) (fwd : Bool) (st : Bt.State)
    (bts : Array Bt.BtInsn) (ip pos : Nat) (st' : Bt.State) (bts' : Array Bt.BtInsn)
    (h : Bt.tryBacktrack prog inp fwd st bts = .resumed ip pos st' bts') :
    bts'.size ≤ bts.size + 1 :=
  (Bt.tryBacktrack_spec h).size_le

/-- Local fact 3: a look-around instruction saves `endGroup - startGroup ≤ Bt.maxPush prog` groups;
`Bt.maxPush prog = max 3 (max over look-around instructions of endGroup - startGroup)`. -/
theorem bt_maxPush_spec (prog : Prog) :
    3 ≤ Bt.maxPush prog ∧
    (∀ (ip : Nat) (neg : Bool) (sg eg k : Nat),
      prog.insns[ip]? = some (Insn.lookahead neg sg eg k) → eg - sg ≤ Bt.maxPush prog) ∧
    (∀ (ip : Nat) (neg : Bool) (sg eg k : Nat),
      prog.insns[ip]? = some (Insn.lookbehind neg sg eg k) → eg - sg ≤ Bt.maxPush prog) :=
  ⟨Bt.three_le_maxPush prog,
   fun _ _ _ _ _ h => Bt.insnPush_le_maxPush (i := Insn.lookahead _ _ _ _) h,
   fun _ _ _ _ _ h => Bt.insnPush_le_maxPush (i := Insn.lookbehind _ _ _ _) h⟩

example : Bt.maxPush progLookLoop1 = 3 := by decide +kernel

/-- **Backtracker stack bound, general form.** If `Bt.run`, started with stack `bts` and counters
`steps`, `peak`, ends in `matched`/`failed` with counters `steps'`, `peak'`, then at least one tick
happened and `peak' ≤ max peak (bts.size + k * (steps' - steps - 1))`, `k = Bt.maxPush prog`:
every tick adds at most `k` records. Nested look-around runs (fresh stack `[Exhausted]`) included.
No hypothesis on the program. -/
theorem bt_run_peak_bound (prog : Prog) (inp : Input) (limit sf ip pos : Nat) (fwd : Bool)
    (st : Bt.State) (bts : Array Bt.BtInsn) (steps peak : Nat) :
    (∀ p st' steps' peak',
      Bt.run prog inp limit sf ip pos fwd st bts steps peak = .matched p st' steps' peak' →
      steps < steps' ∧ peak' ≤ max peak (bts.size + Bt.maxPush prog * (steps' - steps - 1))) ∧
    (∀ st' steps' peak',
      Bt.run prog inp limit sf ip pos fwd st bts steps peak = .failed st' steps' peak' →
      steps < steps' ∧ peak' ≤ max peak (bts.size + Bt.maxPush prog * (steps' - steps - 1))) :=
  ⟨fun _ _ s' k' h => Bt.run_peak_le prog inp limit sf ip pos fwd st bts steps peak s' k'
      (by rw [h]; rfl),
   fun _ s' k' h => Bt.run_peak_le prog inp limit sf ip pos fwd st bts steps peak s' k'
      (by rw [h]; rfl)⟩

/-- **Backtracker stack bound for one attempt**: `peak ≤ 1 + k * (steps - 1)`. -/
theorem bt_tryAtPos_peak_bound (prog : Prog) (inp : Input) (fuel ip pos : Nat) (fwd : Bool)
    (st : Bt.State) :
    (∀ p st' steps' peak', Bt.tryAtPos prog inp fuel ip pos fwd st = .matched p st' steps' peak' →
      1 ≤ steps' ∧ peak' ≤ 1 + Bt.maxPush prog * (steps' - 1)) ∧
    (∀ st' steps' peak', Bt.tryAtPos prog inp fuel ip pos fwd st = .failed st' steps' peak' →
      1 ≤ steps' ∧ peak' ≤ 1 + Bt.maxPush prog * (steps' - 1)) :=
  ⟨fun _ _ s' k' h => Bt.tryAtPos_peak_le prog inp fuel ip pos fwd st s' k' (by rw [h]; rfl),
   fun _ s' k' h => Bt.tryAtPos_peak_le prog inp fuel ip pos fwd st s' k' (by rw [h]; rfl)⟩

/-- Non-vacuity: `(a|b)*c` on `aab` fails after 33 ticks with peak 24 `≤ 1 + 3 * 32`. -/
example : (Bt.tryAtPos progLoop hayAab 40 0 0 true (Bt.freshState progLoop 0)).summary
    = .failed 33 24 := by decide +kernel

/-- **PikeVM stack bound, general form.** Every tick adds at most one state (`Split`):
`peak' ≤ max peak (states.size + (steps' - steps) - 1)`. No hypothesis on the program. -/
theorem pk_runStates_peak_bound (prog : Prog) (inp : Input) (limit sf : Nat)
    (states : Array Pk.State) (fwd : Bool) (steps peak : Nat) :
    (∀ p st' steps' peak',
      Pk.runStates prog inp limit sf states fwd steps peak = .matched p st' steps' peak' →
      steps ≤ steps' ∧ peak' ≤ max peak (states.size + (steps' - steps) - 1)) ∧
    (∀ steps' peak',
      Pk.runStates prog inp limit sf states fwd steps peak = .failed steps' peak' →
      steps ≤ steps' ∧ peak' ≤ max peak (states.size + (steps' - steps) - 1)) :=
  ⟨fun _ _ s' k' h => Pk.runStates_peak_le prog inp limit sf states fwd steps peak s' k'
      (by rw [h]; rfl),
   fun s' k' h => Pk.runStates_peak_le prog inp limit sf states fwd steps peak s' k'
      (by rw [h]; rfl)⟩

/-- **PikeVM stack bound for one attempt**: `peak ≤ steps`. -/
theorem pk_tryAtPos_peak_bound (prog : Prog) (inp : Input) (fuel : Nat) (init : Pk.State)
    (fwd : Bool) :
    (∀ p st' steps' peak', Pk.tryAtPos prog inp fuel init fwd = .matched p st' steps' peak' →
      peak' ≤ steps') ∧
    (∀ steps' peak', Pk.tryAtPos prog inp fuel init fwd = .failed steps' peak' → peak' ≤ steps') :=
  ⟨fun _ _ s' k' h => Pk.tryAtPos_peak_le prog inp fuel init fwd s' k' (by rw [h]; rfl),
   fun s' k' h => Pk.tryAtPos_peak_le prog inp fuel init fwd s' k' (by rw [h]; rfl)⟩

example : (Pk.tryAtPos progLoop hayAab 40 (Pk.initState progLoop 0 0) true).summary
    = .failed 33 8 := by decide +kernel

/-! ## (b) Forward (loop-free) programs terminate within `(L + 3)^(n + 1)` ticks

`forwardProg prog` (decidable, `Proofs/Lemmas/Termination.lean`): no `enterLoop`/`loopAgain`
instruction; every `jump t`, `alt s` and look-around continuation `k` at index `j` has target `> j`.
`loop1` (single-char loops) and look-arounds are allowed. `wfProg` is **not** assumed.
`tickB n L ip = (L + 3)^(n + 1 - ip)`. -/

example : forwardProg progLookLoop1 = true := by decide
example : forwardProg progLookbehind = true := by decide
example : forwardProg progLoop = false := by decide
example : wfProg progLookLoop1 = true := by decide +kernel

/-- **Backtracker, general form.** With `Φ = Bt.potential prog inp fwd ip bts`
`= tickB n L ip + Σ_{r ∈ bts} Bt.cost n L fwd r`
(`cost (SetPosition ip' _) = tickB ip'`,
`cost (GreedyLoop1Char c _ max) = (if fwd then max else L - max) * tickB c`,
`cost (NonGreedyLoop1Char c min _) = (if fwd then L - min else min) * tickB c`, other records `0`):
if `Φ ≤ sf` and `steps + Φ ≤ limit` then the run does not return `.outOfFuel` and a
`matched`/`failed` outcome has `steps' ≤ steps + Φ` (every tick decreases the potential). -/
theorem bt_run_terminates (prog : Prog) (hf : forwardProg prog = true) (inp : Input)
    (limit sf ip pos : Nat) (fwd : Bool) (st : Bt.State) (bts : Array Bt.BtInsn) (steps peak : Nat)
    (hsf : Bt.potential prog inp fwd ip bts ≤ sf)
    (hlimit : steps + Bt.potential prog inp fwd ip bts ≤ limit) :
    Bt.run prog inp limit sf ip pos fwd st bts steps peak ≠ .outOfFuel ∧
    (∀ p st' steps' peak',
      Bt.run prog inp limit sf ip pos fwd st bts steps peak = .matched p st' steps' peak' →
      steps' ≤ steps + Bt.potential prog inp fwd ip bts) ∧
    (∀ st' steps' peak',
      Bt.run prog inp limit sf ip pos fwd st bts steps peak = .failed st' steps' peak' →
      steps' ≤ steps + Bt.potential prog inp fwd ip bts) := by
  have h := Bt.run_terminates prog hf inp limit sf ip pos fwd st bts steps peak hsf hlimit
  refine ⟨Bt.Outcome.within_ne h, ?_, ?_⟩
  · intro p st' s' k' he; rw [he] at h; exact h
  · intro st' s' k' he; rw [he] at h; exact h

/-- **Backtracker, one attempt.** For a forward program with `n` instructions and a haystack of `L`
bytes, `Bt.attempt` (= `classicalbacktrack::verif_attempt`, any start position, either input kind,
well-formed haystack or not) with a tick budget `fuel ≥ (L + 3)^(n + 1)` does not run out of fuel,
and a `matched`/`failed` outcome used at most `(L + 3)^(n + 1)` ticks. -/
theorem bt_attempt_terminates (prog : Prog) (hf : forwardProg prog = true) (inp : Input)
    (fuel pos : Nat) (hfuel : (inp.bytes.size + 3) ^ (prog.insns.size + 1) ≤ fuel) :
    Bt.attempt prog inp fuel pos ≠ .outOfFuel ∧
    (∀ p st' steps' peak', Bt.attempt prog inp fuel pos = .matched p st' steps' peak' →
      steps' ≤ (inp.bytes.size + 3) ^ (prog.insns.size + 1)) ∧
    (∀ st' steps' peak', Bt.attempt prog inp fuel pos = .failed st' steps' peak' →
      steps' ≤ (inp.bytes.size + 3) ^ (prog.insns.size + 1)) := by
  have h := Bt.tryAtPos_terminates prog hf inp fuel 0 pos true (Bt.freshState prog 0)
    (by simpa [tickB] using hfuel)
  have e : tickB prog.insns.size inp.bytes.size 0 = (inp.bytes.size + 3) ^ (prog.insns.size + 1) := by
    simp [tickB]
  rw [e] at h
  refine ⟨Bt.Outcome.within_ne h, ?_, ?_⟩
  · intro p st' s' k' he
    have : Bt.tryAtPos prog inp fuel 0 pos true (Bt.freshState prog 0) = .matched p st' s' k' := he
    rw [this] at h; exact h
  · intro st' s' k' he
    have : Bt.tryAtPos prog inp fuel 0 pos true (Bt.freshState prog 0) = .failed st' s' k' := he
    rw [this] at h; exact h

/-- Non-vacuity: `(?=(a))a*b|c` on `aab` (12 instructions, 3 bytes): matched after 10 ticks. -/
example : (Bt.attempt progLookLoop1 hayAab 20 0).summary = .matched 3 10 4 := by decide +kernel
example : (Bt.attempt progLookbehind hayAab 20 0).summary = .matched 3 7 2 := by decide +kernel

/-- **PikeVM, general form.** Hypotheses: `forwardProg prog` and `Pk.loop1Scm prog` (every `loop1`
is followed by an instruction accepted as single-char matcher — `wfProg` clause I9; the PikeVM runs
the body as an ordinary instruction, and a body that consumes nothing would make the model spin).
`Φ = Pk.costSum prog L fwd states = Σ_{s ∈ states} Pk.cost prog L fwd s`, where
`cost s = (rem s.pos + 1) * (1 + tickB (s.ip + 2))` if `s.ip` is a `loop1`
(`rem pos = L - pos` forwards, `min pos L` backwards), and `tickB s.ip` otherwise.
If `Φ + 1 ≤ sf` and `steps + Φ ≤ limit`, the run does not return `.outOfFuel` and
`steps' ≤ steps + Φ`. -/
theorem pk_runStates_terminates (prog : Prog) (hf : forwardProg prog = true)
    (hl1 : Pk.loop1Scm prog = true) (inp : Input) (limit sf : Nat) (states : Array Pk.State)
    (fwd : Bool) (steps peak : Nat)
    (hsf : Pk.costSum prog inp.bytes.size fwd states + 1 ≤ sf)
    (hlimit : steps + Pk.costSum prog inp.bytes.size fwd states ≤ limit) :
    Pk.runStates prog inp limit sf states fwd steps peak ≠ .outOfFuel ∧
    (∀ p st' steps' peak',
      Pk.runStates prog inp limit sf states fwd steps peak = .matched p st' steps' peak' →
      steps' ≤ steps + Pk.costSum prog inp.bytes.size fwd states) ∧
    (∀ steps' peak',
      Pk.runStates prog inp limit sf states fwd steps peak = .failed steps' peak' →
      steps' ≤ steps + Pk.costSum prog inp.bytes.size fwd states) := by
  have h := Pk.runStates_terminates prog hf hl1 inp limit sf states fwd steps peak hsf hlimit
  refine ⟨Pk.Outcome.within_ne h, ?_, ?_⟩
  · intro p st' s' k' he; rw [he] at h; exact h
  · intro s' k' he; rw [he] at h; exact h

/-- **PikeVM, one attempt.** `Pk.attempt` (= `pikevm::verif_attempt`) with
`fuel ≥ (L + 3)^(n + 1)` does not run out of fuel and uses at most `(L + 3)^(n + 1)` ticks. -/
theorem pk_attempt_terminates (prog : Prog) (hf : forwardProg prog = true)
    (hl1 : Pk.loop1Scm prog = true) (inp : Input)
    (fuel pos : Nat) (hfuel : (inp.bytes.size + 3) ^ (prog.insns.size + 1) ≤ fuel) :
    Pk.attempt prog inp fuel pos ≠ .outOfFuel ∧
    (∀ p st' steps' peak', Pk.attempt prog inp fuel pos = .matched p st' steps' peak' →
      steps' ≤ (inp.bytes.size + 3) ^ (prog.insns.size + 1)) ∧
    (∀ steps' peak', Pk.attempt prog inp fuel pos = .failed steps' peak' →
      steps' ≤ (inp.bytes.size + 3) ^ (prog.insns.size + 1)) := by
  have e : tickB prog.insns.size inp.bytes.size (Pk.initState prog pos pos).ip
      = (inp.bytes.size + 3) ^ (prog.insns.size + 1) := by
    simp [tickB, Pk.initState]
  have h := Pk.tryAtPos_terminates prog hf hl1 inp fuel (Pk.initState prog pos pos) true
    (by rw [e]; exact hfuel)
  rw [e] at h
  refine ⟨Pk.Outcome.within_ne h, ?_, ?_⟩
  · intro p st' s' k' he
    have : Pk.tryAtPos prog inp fuel (Pk.initState prog pos pos) true = .matched p st' s' k' := he
    rw [this] at h; exact h
  · intro s' k' he
    have : Pk.tryAtPos prog inp fuel (Pk.initState prog pos pos) true = .failed s' k' := he
    rw [this] at h; exact h

example : Pk.loop1Scm progLookLoop1 = true := by decide
example : Pk.loop1Scm progLookbehind = true := by decide
example : (Pk.attempt progLookLoop1 hayAab 30 0).summary = .matched 3 12 4 := by decide +kernel
example : (Pk.attempt progLookbehind hayAab 30 0).summary = .matched 3 8 2 := by decide +kernel

/-- The hypothesis `loop1Scm` is needed for the PikeVM *model*: a (not well-formed) forward program
whose `loop1` body is a `jump` to the next instruction never terminates — the state stays at the
`loop1` with the same position. (Such a program is never emitted: `wfProg` rejects it, and the
backtracker answers `.error "…Missing SCM"`.) -/
def progBadLoop1 : Prog :=
  { insns := #[.loop1 0 none true, .jump 2, .goal],
    brackets := #[], loops := 0, groups := 0, flags := {}, names := [], startPred := .arbitrary }

example : forwardProg progBadLoop1 = true ∧ Pk.loop1Scm progBadLoop1 = false ∧
    wfProg progBadLoop1 = false := by decide +kernel
example : (Pk.attempt progBadLoop1 hayAab 200 0).summary = .outOfFuel := by decide +kernel
example : (Bt.attempt progBadLoop1 hayAab 200 0).summary = .error := by decide +kernel

/-! ## (d) Programs with general loops: PikeVM, no look-arounds

`Pk.loopProg prog` (decidable): jumps and alternations go forward; no look-around; every
`enterLoop` at `j` has `exit > j` and a loop id used by no other `enterLoop`; every `loopAgain b` at
`j` has `b < j`, `insns[b]` is an `enterLoop` with `exit > j`, and every earlier loop whose body
contains `b + 1` also contains `j` (proper nesting). `loop1` is allowed (`Pk.loop1Scm`).

Measure: `Pk.rank prog L fwd s` is the mixed-radix number with digits, most significant first,
`rem s.pos` (remaining input), then for every instruction index `j` in increasing order the digit of
`insns[j]` (`0` unless it is `enterLoop id min _ _ exit`; then `2 * (min + 1) + 1` while `s.ip ≤ j`,
`2 * (min + 1 - iters) + (1 if entry ≠ s.pos else 0)` while `j < s.ip < exit`, `0` for
`s.ip ≥ exit`), and last `n - s.ip`. Every tick replaces the top state by at most two states of
strictly smaller rank: a `loopAgain` that iterates again either still has a free iteration
(`iters + 1 ≤ min`) or has moved since `entry` — exactly the check of `run_loop`; it resets only the
digits of inner (later) loops. Hence at most `3 ^ rank` ticks; `rank < Pk.rankBound prog L =
(L + 1) * (n + 1) * Π_{enterLoop} (2 * (min + 1) + 2)`. -/

/-- `(?:(?:a|b)+?c)*d`: nested loops, the inner one non-greedy. -/
def progNested : Prog :=
  { insns := #[.enterLoop 0 0 none true 13, .alt 4, .byteSeq [0x61], .jump 5, .byteSeq [0x62],
               .enterLoop 1 0 none false 11, .alt 9, .byteSeq [0x61], .jump 10, .byteSeq [0x62],
               .loopAgain 5, .byteSeq [0x63], .loopAgain 0, .byteSeq [0x64], .goal],
    brackets := #[], loops := 2, groups := 0, flags := {}, names := [], startPred := .arbitrary }

/-- `(?:a*)*b`: a loop whose body can match the empty string. -/
def progStarStar : Prog :=
  { insns := #[.enterLoop 0 0 none true 4, .loop1 0 none true, .byteSeq [0x61], .loopAgain 0,
               .byteSeq [0x62], .goal],
    brackets := #[], loops := 1, groups := 0, flags := {}, names := [], startPred := .arbitrary }

example : Pk.loopProg progLoop = true ∧ Pk.loopProg progNested = true ∧
    Pk.loopProg progStarStar = true := by decide +kernel
example : Pk.loop1Scm progLoop = true ∧ Pk.loop1Scm progNested = true ∧
    Pk.loop1Scm progStarStar = true := by decide +kernel
example : wfProg progNested = true ∧ wfProg progStarStar = true := by decide +kernel
example : Pk.rankBound progStarStar 3 = 4 * (4 * 7) := by decide +kernel

/-- **PikeVM with loops, general form.** `Φ = Σ_{s ∈ states} 3 ^ Pk.rank prog L fwd s`. -/
theorem pk_loop_runStates_terminates (prog : Prog) (hf : Pk.loopProg prog = true)
    (hl1 : Pk.loop1Scm prog = true) (inp : Input) (limit sf : Nat) (states : Array Pk.State)
    (fwd : Bool) (steps peak : Nat)
    (hsf : Pk.rcostSum prog inp.bytes.size fwd states + 1 ≤ sf)
    (hlimit : steps + Pk.rcostSum prog inp.bytes.size fwd states ≤ limit) :
    Pk.runStates prog inp limit sf states fwd steps peak ≠ .outOfFuel ∧
    (∀ p st' steps' peak',
      Pk.runStates prog inp limit sf states fwd steps peak = .matched p st' steps' peak' →
      steps' ≤ steps + Pk.rcostSum prog inp.bytes.size fwd states) ∧
    (∀ steps' peak',
      Pk.runStates prog inp limit sf states fwd steps peak = .failed steps' peak' →
      steps' ≤ steps + Pk.rcostSum prog inp.bytes.size fwd states) := by
  have h := Pk.runStates_terminates2 prog hf hl1 inp limit sf states fwd steps peak hsf hlimit
  refine ⟨Pk.Outcome.within_ne h, ?_, ?_⟩
  · intro p st' s' k' he; rw [he] at h; exact h
  · intro s' k' he; rw [he] at h; exact h

/-- **PikeVM with loops, one attempt.** For `Pk.loopProg` programs (general, properly nested loops,
`loop1`, no look-arounds) `Pk.attempt` with `fuel ≥ 3 ^ Pk.rankBound prog L` does not run out of
fuel and uses at most that many ticks, for every haystack (valid UTF-8 or not), start position and
initial loop data. -/
theorem pk_loop_attempt_terminates (prog : Prog) (hf : Pk.loopProg prog = true)
    (hl1 : Pk.loop1Scm prog = true) (inp : Input) (fuel pos : Nat)
    (hfuel : 3 ^ Pk.rankBound prog inp.bytes.size ≤ fuel) :
    Pk.attempt prog inp fuel pos ≠ .outOfFuel ∧
    (∀ p st' steps' peak', Pk.attempt prog inp fuel pos = .matched p st' steps' peak' →
      steps' ≤ 3 ^ Pk.rankBound prog inp.bytes.size) ∧
    (∀ steps' peak', Pk.attempt prog inp fuel pos = .failed steps' peak' →
      steps' ≤ 3 ^ Pk.rankBound prog inp.bytes.size) := by
  have h := Pk.tryAtPos_terminates2 prog hf hl1 inp fuel (Pk.initState prog pos pos) true hfuel
  refine ⟨Pk.Outcome.within_ne h, ?_, ?_⟩
  · intro p st' s' k' he
    have : Pk.tryAtPos prog inp fuel (Pk.initState prog pos pos) true = .matched p st' s' k' := he
    rw [this] at h; exact h
  · intro s' k' he
    have : Pk.tryAtPos prog inp fuel (Pk.initState prog pos pos) true = .failed s' k' := he
    rw [this] at h; exact h

/-- `Pk.rankBound` written out. -/
theorem pk_rankBound_eq (prog : Prog) (L : Nat) :
    Pk.rankBound prog L = (L + 1) * Pk.wFrom prog.insns.size prog.insns.toList := rfl

example : (Pk.attempt progNested hayAab 200 0).summary = .failed 22 5 := by decide +kernel
example : (Pk.attempt progStarStar hayAab 60 0).summary = .matched 3 9 5 := by decide +kernel

/-! ## (a) + (b)/(d): above the bound the outcome does not depend on the fuel -/

/-- For a forward program every budget `fuel ≥ (L + 3)^(n + 1)` gives the outcome obtained with
exactly `(L + 3)^(n + 1)`: the model's answer is the answer of the unbounded engine. -/
theorem bt_attempt_fuel_independent (prog : Prog) (hf : forwardProg prog = true) (inp : Input)
    (fuel pos : Nat) (hfuel : (inp.bytes.size + 3) ^ (prog.insns.size + 1) ≤ fuel) :
    Bt.attempt prog inp fuel pos
      = Bt.attempt prog inp ((inp.bytes.size + 3) ^ (prog.insns.size + 1)) pos :=
  bt_attempt_fuel_mono prog inp _ fuel hfuel pos
    (bt_attempt_terminates prog hf inp _ pos (Nat.le_refl _)).1

theorem pk_attempt_fuel_independent (prog : Prog) (hf : forwardProg prog = true)
    (hl1 : Pk.loop1Scm prog = true) (inp : Input)
    (fuel pos : Nat) (hfuel : (inp.bytes.size + 3) ^ (prog.insns.size + 1) ≤ fuel) :
    Pk.attempt prog inp fuel pos
      = Pk.attempt prog inp ((inp.bytes.size + 3) ^ (prog.insns.size + 1)) pos :=
  pk_attempt_fuel_mono prog inp _ fuel hfuel pos
    (pk_attempt_terminates prog hf hl1 inp _ pos (Nat.le_refl _)).1

theorem pk_loop_attempt_fuel_independent (prog : Prog) (hf : Pk.loopProg prog = true)
    (hl1 : Pk.loop1Scm prog = true) (inp : Input)
    (fuel pos : Nat) (hfuel : 3 ^ Pk.rankBound prog inp.bytes.size ≤ fuel) :
    Pk.attempt prog inp fuel pos = Pk.attempt prog inp (3 ^ Pk.rankBound prog inp.bytes.size) pos :=
  pk_attempt_fuel_mono prog inp _ fuel hfuel pos
    (pk_loop_attempt_terminates prog hf hl1 inp _ pos (Nat.le_refl _)).1

/-! ## `wfProg` alone does not imply termination

`wfProg` constrains jump targets only to be in range. A well-formed (but never emitted) program can
loop without consuming input; both models then run out of any fuel. So a termination theorem for
programs with loops needs a structural hypothesis beyond `wfProg` (forward jumps, properly nested
`enterLoop`/`loopAgain` pairs), see the discussion of part (d) in the report. -/

/-- `wfProg` does not bound the control flow: a program that jumps to itself. -/
def progJumpSelf : Prog :=
  { insns := #[.jump 0, .goal],
    brackets := #[], loops := 0, groups := 0, flags := {}, names := [], startPred := .arbitrary }

example : wfProg progJumpSelf = true := by decide +kernel
example : forwardProg progJumpSelf = false ∧ Pk.loopProg progJumpSelf = false := by decide +kernel

theorem bt_jumpSelf_diverges (inp : Input) (limit : Nat) :
    ∀ (sf pos : Nat) (st : Bt.State) (bts : Array Bt.BtInsn) (steps peak : Nat),
      Bt.run progJumpSelf inp limit sf 0 pos true st bts steps peak = .outOfFuel := by
  intro sf
  induction sf with
  | zero => intros; rfl
  | succ sf ih =>
    intro pos st bts steps peak
    simp only [Bt.run]
    split
    · rfl
    · have : Bt.step progJumpSelf inp 0 pos true st bts = .cont 0 pos st bts := rfl
      simp only [this]
      exact ih _ _ _ _ _

theorem pk_jumpSelf_diverges (inp : Input) (limit : Nat) :
    ∀ (sf : Nat) (s : Pk.State) (steps peak : Nat), s.ip = 0 →
      Pk.runStates progJumpSelf inp limit sf #[s] true steps peak = .outOfFuel := by
  intro sf
  induction sf with
  | zero => intros; rfl
  | succ sf ih =>
    intro s steps peak hip
    simp only [Pk.runStates]
    have hb : (#[s] : Array Pk.State).back? = some s := rfl
    simp only [hb]
    split
    · rfl
    · have : ∀ look st pk, Pk.tryMatchState progJumpSelf inp look (progJumpSelf.insns.size + 1) s true st pk
          = .cont { s with ip := 0 } st pk := by
        intro look st pk
        have h0 : progJumpSelf.insns[s.ip]? = some (.jump 0) := by rw [hip]; rfl
        simp [Pk.tryMatchState, h0]
      simp only [this]
      exact ih _ _ _ rfl

/-! ## Axioms -/

#print axioms bt_run_fuel_mono
#print axioms bt_tryAtPos_fuel_mono
#print axioms bt_attempt_fuel_mono
#print axioms pk_tryMatchState_mono
#print axioms pk_runStates_fuel_mono
#print axioms pk_tryAtPos_fuel_mono
#print axioms pk_attempt_fuel_mono
#print axioms bt_step_size
#print axioms bt_tryBacktrack_size
#print axioms bt_maxPush_spec
#print axioms bt_run_peak_bound
#print axioms bt_tryAtPos_peak_bound
#print axioms pk_runStates_peak_bound
#print axioms pk_tryAtPos_peak_bound
#print axioms bt_run_terminates
#print axioms bt_attempt_terminates
#print axioms pk_runStates_terminates
#print axioms pk_attempt_terminates
#print axioms pk_loop_runStates_terminates
#print axioms pk_loop_attempt_terminates
#print axioms bt_attempt_fuel_independent
#print axioms pk_attempt_fuel_independent
#print axioms pk_loop_attempt_fuel_independent
#print axioms bt_jumpSelf_diverges
#print axioms pk_jumpSelf_diverges

end Regress.C05
