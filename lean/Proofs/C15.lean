import Proofs.C06
/-!
# C15 — observable results do not depend on build features

The crate's features select *how* an access is performed, never *what* is computed:

* `prohibit-unsafe` vs default: `get(i).expect(..)` / `unreachable!()` (panic) vs `get_unchecked(i)` /
  `unreachable_unchecked()` (undefined behaviour) — in the executor models both are the single
  result `Outcome.error site`;
* `index-positions` vs default: a position is an offset vs a pointer `base + offset` — the models
  use offsets; the position algebra (`+ n`, `- n`, difference, comparison) is the same on both;
* `utf16`: the emitter lowers literals to `Char`/`CharSet` instead of byte sequences, and no
  prefilter is used (C03: `form_literal_bytes_preserves`; C04: `prefilter_transparent`);
* `std` vs `alloc`: the hash map of the duplicate-name pre-scan (order-independent use).

So a feature variant of the executor is *any* function that agrees with the model wherever the
model does not hit an error site (at an error site a checked build panics and an unchecked build
may do anything).  The theorems below say that any two such variants agree on every well-formed
program and valid input — because by C06 no error site is reachable there.  That each real
feature build *is* such a variant is what the correspondence checks on every run: one case file is
replayed by six binaries (default, index-positions, prohibit-unsafe, both, utf16, alloc-only) and
every output is compared with the default build's, which is itself tied to the model (C02/C06).
-/
namespace Regress.C15
open Regress.VM Regress.VM.Safety Regress.C06

/-- What an observer sees of one anchored attempt. -/
inductive Obs where
  | matched (e : Nat) (caps : Api.Caps)
  | failed
  | outOfFuel
deriving DecidableEq, Repr

def obsBt : Bt.Outcome → Option Obs
  | .matched e st _ _ => some (.matched e (Bt.capsOf st))
  | .failed _ _ _ => some .failed
  | .outOfFuel => some .outOfFuel
  | .error _ => none

/-- A build variant of the backtracking executor: it returns what the model returns whenever the
model reaches no error site. -/
def RefinesBt (impl : Prog → Input → Nat → Nat → Obs) : Prop :=
  ∀ prog inp fuel pos o, obsBt (Bt.attemptFresh prog inp fuel pos) = some o → impl prog inp fuel pos = o

/-- **Any two build variants agree** on well-formed programs (with the boundary certificate),
UTF-8 text and a start on a char boundary. -/
theorem feature_variants_agree_utf8 {implA implB : Prog → Input → Nat → Nat → Obs}
    (hA : RefinesBt implA) (hB : RefinesBt implB)
    {prog : Prog} {inp : Input} {cs : List Nat}
    (hw : wfProgUtf8 prog = true) (hnb : noIcaseBackref prog = true)
    (h : Utf8Text inp cs) {pos : Nat} (hp : VUtf8 inp pos) (fuel : Nat) :
    implA prog inp fuel pos = implB prog inp fuel pos := by
  have hs := bt_attemptFresh_safe_utf8 hw hnb h hp fuel
  cases hr : Bt.attemptFresh prog inp fuel pos with
  | error e => rw [hr] at hs; exact absurd hs (by simp [Bt.Post])
  | matched e st s p =>
    rw [hA prog inp fuel pos _ (by rw [hr]; rfl), hB prog inp fuel pos _ (by rw [hr]; rfl)]
  | failed st s p =>
    rw [hA prog inp fuel pos _ (by rw [hr]; rfl), hB prog inp fuel pos _ (by rw [hr]; rfl)]
  | outOfFuel =>
    rw [hA prog inp fuel pos _ (by rw [hr]; rfl), hB prog inp fuel pos _ (by rw [hr]; rfl)]

/-- … and every variant returns exactly the model's observation there (so in particular the
checked builds do not panic and the unchecked builds perform no out-of-range access). -/
theorem variant_eq_model_utf8 {impl : Prog → Input → Nat → Nat → Obs} (hA : RefinesBt impl)
    {prog : Prog} {inp : Input} {cs : List Nat}
    (hw : wfProgUtf8 prog = true) (hnb : noIcaseBackref prog = true)
    (h : Utf8Text inp cs) {pos : Nat} (hp : VUtf8 inp pos) (fuel : Nat) :
    obsBt (Bt.attemptFresh prog inp fuel pos) = some (impl prog inp fuel pos) := by
  have hs := bt_attemptFresh_safe_utf8 hw hnb h hp fuel
  cases hr : Bt.attemptFresh prog inp fuel pos with
  | error e => rw [hr] at hs; exact absurd hs (by simp [Bt.Post])
  | matched e st s p => rw [hA prog inp fuel pos _ (by rw [hr]; rfl)]; rfl
  | failed st s p => rw [hA prog inp fuel pos _ (by rw [hr]; rfl)]; rfl
  | outOfFuel => rw [hA prog inp fuel pos _ (by rw [hr]; rfl)]; rfl

/-- **Any two build variants agree — no restriction on the program** beyond the decidable
certificates `wfProgFull` (which every program dumped from the real compiler passes, and which
include case-insensitive back-references). -/
theorem feature_variants_agree_utf8_full {implA implB : Prog → Input → Nat → Nat → Obs}
    (hA : RefinesBt implA) (hB : RefinesBt implB)
    {prog : Prog} {inp : Input} {cs : List Nat}
    (hw : wfProgFull prog = true)
    (h : Utf8Text inp cs) {pos : Nat} (hp : VUtf8 inp pos) (fuel : Nat) :
    implA prog inp fuel pos = implB prog inp fuel pos := by
  have hs := bt_attemptFresh_safe_full hw h hp fuel
  cases hr : Bt.attemptFresh prog inp fuel pos with
  | error e => rw [hr] at hs; exact absurd hs (by simp [Bt.Post])
  | matched e st s p =>
    rw [hA prog inp fuel pos _ (by rw [hr]; rfl), hB prog inp fuel pos _ (by rw [hr]; rfl)]
  | failed st s p =>
    rw [hA prog inp fuel pos _ (by rw [hr]; rfl), hB prog inp fuel pos _ (by rw [hr]; rfl)]
  | outOfFuel =>
    rw [hA prog inp fuel pos _ (by rw [hr]; rfl), hB prog inp fuel pos _ (by rw [hr]; rfl)]

/-- … and every variant returns exactly the model's observation there. -/
theorem variant_eq_model_utf8_full {impl : Prog → Input → Nat → Nat → Obs} (hA : RefinesBt impl)
    {prog : Prog} {inp : Input} {cs : List Nat}
    (hw : wfProgFull prog = true)
    (h : Utf8Text inp cs) {pos : Nat} (hp : VUtf8 inp pos) (fuel : Nat) :
    obsBt (Bt.attemptFresh prog inp fuel pos) = some (impl prog inp fuel pos) := by
  have hs := bt_attemptFresh_safe_full hw h hp fuel
  cases hr : Bt.attemptFresh prog inp fuel pos with
  | error e => rw [hr] at hs; exact absurd hs (by simp [Bt.Post])
  | matched e st s p => rw [hA prog inp fuel pos _ (by rw [hr]; rfl)]; rfl
  | failed st s p => rw [hA prog inp fuel pos _ (by rw [hr]; rfl)]; rfl
  | outOfFuel => rw [hA prog inp fuel pos _ (by rw [hr]; rfl)]; rfl

/-- Position algebra: a pointer position `base + off` and an index position `off` satisfy the same
laws (what `position.rs` implements twice). -/
theorem position_algebra (base a b n : Nat) :
    ((base + a) + n = base + (a + n)) ∧
    (n ≤ a → (base + a) - n = base + (a - n)) ∧
    ((base + a) - (base + b) = a - b) ∧
    ((base + a ≤ base + b) ↔ a ≤ b) ∧
    ((base + a = base + b) ↔ a = b) := by
  refine ⟨by omega, fun _ => by omega, by omega, by omega, by omega⟩

-- non-vacuity: the model itself is a variant
example : RefinesBt (fun prog inp fuel pos =>
    match obsBt (Bt.attemptFresh prog inp fuel pos) with
    | some o => o
    | none => .failed) := by
  intro prog inp fuel pos o h; simp [h]

end Regress.C15

#print axioms Regress.C15.feature_variants_agree_utf8
#print axioms Regress.C15.feature_variants_agree_utf8_full
#print axioms Regress.C15.variant_eq_model_utf8_full
#print axioms Regress.C15.variant_eq_model_utf8
#print axioms Regress.C15.position_algebra
