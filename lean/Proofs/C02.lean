import Proofs.Lemmas.Frame
/-!
# C02 — the backtracking executor restores its shared state (`undo_restores`), a failed attempt
leaves the matcher as it found it (`failed_attempt_restores`), and the backtracker refines the PikeVM
for all programs without `Loop1CharBody` (`bt_refines_pk`, `C02_partial`)

Model: `Regress.VM.Bt` (`RegressModel/VM/Backtrack.lean`), the transliteration of
`src/classicalbacktrack.rs` *with* the two repairs "record an undo entry when a capture group is
closed" and "make the iteration-count reset on loop entry undoable".

Vocabulary (`Proofs/Lemmas/Frame.lean`):
* `restore prog r st` — the state change `try_backtrack` makes when it pops the record `r`;
* `rewind prog bts st` — pop every record of `bts` from the top down to (not including) the first
  `Exhausted`;
* `unwind prog bts st` — pop the records of `bts` from the top down to (not including) the first
  *choice* record (`SetPosition`, `EnterNonGreedyLoop`, a `…Loop1Char` with `max ≠ min`, `Exhausted`):
  the state `try_backtrack` resumes in;
* `lookClosed prog` — decidable: every look-around body is a contiguous closed block that writes only
  the capture groups `[start_group, end_group)` of its look-around instruction;
* `lookLoop prog id` — decidable: `id` is the loop id of an `EnterLoop` inside a look-around body.

The exact frame property that is TRUE:
* for every instruction and for `try_backtrack`, for **every** split `bts = base ++ suffix` that is
  not popped into, "the state that popping all of `suffix` restores" is invariant
  (`undo_restores_step`, `undo_restores_backtrack`) — for every loop slot and every group slot, with no
  exception. In particular the state seen when a choice record is resumed is the state at the time
  the record was pushed (take `base` = the stack up to and including that record);
* the version with `unwind` (pop down to the first choice only) is an invariant only of the steps that
  push no choice record (`undo_restores_step`, last clause) — a step that pushes a choice record makes
  `unwind` the current state, by definition;
* a whole run (`undo_restores_run`) keeps it only **modulo the loop slots `lookLoop`**: a completed
  look-around drops the stack of its nested run, so the loop slots written inside the body stay
  modified (`look_loops_not_restored` is a concrete witness). The groups are restored exactly because
  `run_lookaround` saves/restores `[start_group, end_group)` itself — provided the body writes no other
  group, which is what `lookClosed` checks.
-/
namespace Regress.C02

open Regress.VM Regress.VM.Bt

/-! ## 1. `undo_restores` -/

/-- **Frame lemma, one instruction** (all arms of `Bt.step`). If the instruction at `ip` continues
(`.cont`) or breaks to backtracking (`.back`) then, for every split `bts = base ++ suffix`, it has only
pushed records `pushed` (at most 3, never `Exhausted`) on top, and popping them restores the state the
instruction started from, *exactly* (all loop slots, all group slots). Consequently the state that
popping `suffix` restores is unchanged; and if no choice record was pushed also the state `unwind`
restores is unchanged. -/
theorem undo_restores_step (prog : Prog) (inp : Input) (ip pos : Nat) (fwd : Bool) (st : State)
    (base suffix : Array BtInsn) {st' : State} {bts' : Array BtInsn}
    (h : (∃ ip' pos', step prog inp ip pos fwd st (base ++ suffix) = .cont ip' pos' st' bts') ∨
         step prog inp ip pos fwd st (base ++ suffix) = .back st' bts') :
    ∃ pushed : List BtInsn,
      bts' = base ++ (suffix ++ pushed.toArray) ∧ pushed.length ≤ 3 ∧ (∀ r ∈ pushed, r ≠ .exhausted) ∧
      rewindL prog pushed.reverse st' = st ∧
      rewind prog (suffix ++ pushed.toArray) st' = rewind prog suffix st ∧
      ((∀ r ∈ pushed, r.isChoice = false) →
        unwind prog (suffix ++ pushed.toArray) st' = unwind prog suffix st) := by
  have hf := step_frame prog inp ip pos fwd st (base ++ suffix)
  have hp : PushedN prog 3 st (base ++ suffix) st' bts' := by
    rcases h with ⟨ip', pos', h⟩ | h <;> (rw [h] at hf; exact hf)
  obtain ⟨pushed, h1, h2, h3, h4⟩ := hp
  refine ⟨pushed, by rw [h1, Array.append_assoc], h4, h2, h3, ?_, ?_⟩
  · rw [rewind_append prog suffix pushed st' h2, h3]
  · intro hc; rw [unwind_append prog suffix pushed st' hc, h3]

/-- `Goal` does not touch the state. -/
theorem undo_restores_goal (prog : Prog) (inp : Input) (ip pos : Nat) (fwd : Bool) (st : State)
    (bts : Array BtInsn) {pos' : Nat} {st' : State}
    (h : step prog inp ip pos fwd st bts = .goal pos' st') : st' = st := by
  have hf := step_frame prog inp ip pos fwd st bts
  rw [h] at hf; exact hf

/-- **Frame lemma, `try_backtrack`**, for every split `bts = base ++ suffix`: either
* (`resumed`) a choice record of `suffix` is resumed: the new stack is `base ++ suffix'` and popping
  `suffix'` from the new state restores what popping `suffix` from the old state restored; or
* (`exhausted`) an `Exhausted` record of `suffix` is reached: the state is `rewind prog suffix st`; or
* (`intoBase`) `suffix` holds no live choice record: `try_backtrack` pops all of it and behaves as
  `try_backtrack` on the stack `base` in the state `rewind prog suffix st`; or
* (`err`) one of its panic/UB sites is hit. -/
theorem undo_restores_backtrack (prog : Prog) (inp : Input) (fwd : Bool) (st : State)
    (base suffix : Array BtInsn) :
    BtFrame prog inp fwd base suffix st (tryBacktrack prog inp fwd st (base ++ suffix)) :=
  tryBacktrack_frame prog inp fwd base suffix.size suffix st rfl

/-- `try_backtrack` resumes (or reports exhaustion) in the state `unwind prog bts st`, except that
resuming an `EnterNonGreedyLoop` record then advances the slot of the re-entered loop. -/
theorem backtrack_resumes_at_unwind (prog : Prog) (inp : Input) (fwd : Bool) (st : State)
    (bts : Array BtInsn) :
    ResumesAt (unwind prog bts st) (tryBacktrack prog inp fwd st bts) :=
  tryBacktrack_unwind prog inp fwd bts.size bts st rfl

/-- **Frame lemma, a whole run** (`try_at_pos` from an arbitrary `ip`, stack and state, including
nested look-arounds): if the run fails, the state it leaves is `rewind prog bts st` — equal group
arrays, equal loop arrays except possibly at the slots of loops inside look-around bodies. -/
theorem undo_restores_run (prog : Prog) (hc : lookClosed prog = true) (inp : Input)
    (limit sf ip pos : Nat) (fwd : Bool) (st : State) (bts : Array BtInsn) (steps peak : Nat)
    {st' : State} {steps' peak' : Nat}
    (h : run prog inp limit sf ip pos fwd st bts steps peak = .failed st' steps' peak') :
    st'.groups = (rewind prog bts st).groups ∧
    st'.loops.size = (rewind prog bts st).loops.size ∧
    ∀ i, lookLoop prog i = false → st'.loops[i]? = (rewind prog bts st).loops[i]? := by
  have hf := run_failed_frame prog hc inp limit sf ip pos fwd st bts steps peak
  rw [h] at hf
  exact ⟨hf.groups_eq, hf.lsize, hf.loops⟩

/-- The footprint of the nested run of a look-around (used by `undo_restores_run`, of independent
interest): a run that starts inside a closed region `R` of the program on a stack that resumes inside
`R` changes, whether it matches or fails, only the loop slots `L` and group slots `G` of the region. -/
theorem run_footprint (prog : Prog) (R L G : Nat → Bool) (hReg : Region prog R R L G) (inp : Input)
    (limit sf ip pos : Nat) (fwd : Bool) (st : State) (bts : Array BtInsn) (steps peak : Nat)
    (hip : R ip = true) (hb : RecsIn prog R L G bts) :
    OutIn L G st (run prog inp limit sf ip pos fwd st bts steps peak) :=
  run_in prog R L G hReg inp limit sf ip pos fwd st bts steps peak hip hb

/-! ## 2. `failed_attempt_restores` -/

/-- **A failed attempt leaves the matcher state unchanged**: all capture groups, and all loop slots
except those of loops inside look-around bodies. (The real `BacktrackExecutor` reuses one
`MatchAttempter` for all attempts of a search.) -/
theorem failed_attempt_restores (prog : Prog) (hc : lookClosed prog = true) (inp : Input)
    (limit sf ip pos : Nat) (fwd : Bool) (st : State) (steps peak : Nat)
    {st' : State} {steps' peak' : Nat}
    (h : run prog inp limit sf ip pos fwd st #[.exhausted] steps peak = .failed st' steps' peak') :
    st'.groups = st.groups ∧ st'.loops.size = st.loops.size ∧
    ∀ i, lookLoop prog i = false → st'.loops[i]? = st.loops[i]? := by
  have := undo_restores_run prog hc inp limit sf ip pos fwd st #[.exhausted] steps peak h
  simpa [rewind, rewindL] using this

/-- For a program without loops inside look-arounds (in particular without look-arounds) the state is
restored exactly. -/
theorem failed_attempt_restores_exact (prog : Prog) (hc : lookClosed prog = true)
    (hl : lookLoopIds prog = []) (inp : Input)
    (limit sf ip pos : Nat) (fwd : Bool) (st : State) (steps peak : Nat)
    {st' : State} {steps' peak' : Nat}
    (h : run prog inp limit sf ip pos fwd st #[.exhausted] steps peak = .failed st' steps' peak') :
    st' = st := by
  obtain ⟨h1, _, h3⟩ := failed_attempt_restores prog hc inp limit sf ip pos fwd st steps peak h
  have h4 : st'.loops = st.loops := Array.ext_getElem? (fun i => h3 i (by simp [lookLoop, hl]))
  cases st'; cases st; simp_all

/-- The form used by the search loop of `VM/Search.lean` (`btNextMatchPrefix` threads the state of a
failed `btAttempt` into the next attempt): the threaded state has the same groups, and the same loop
slots outside look-around bodies, as the state before the attempt. -/
theorem failed_btAttempt_restores (prog : Prog) (hc : lookClosed prog = true) (inp : Input)
    (limit pos : Nat) (acc : Acc) {st' : State} {steps' peak' : Nat}
    (h : btAttempt prog inp limit pos acc = .failed st' steps' peak') :
    st'.groups = acc.st.groups ∧ st'.loops.size = acc.st.loops.size ∧
    ∀ i, lookLoop prog i = false → st'.loops[i]? = acc.st.loops[i]? :=
  failed_attempt_restores prog hc inp limit _ 0 pos true acc.st acc.steps acc.peak h

/-! ## 3. `bt_refines_pk` — all programs without `Loop1CharBody`

Hypotheses (all decidable, all true of the emitter's output; `example`s below):
* `simpleProg prog`: no `Loop1CharBody` instruction. Everything else is covered: greedy and non-greedy
  loops, alternation, capture groups, back-references, look-aheads and look-behinds (positive and
  negative, nested), anchors, word boundaries, all single-element matchers.
* `loopsStructured prog`: loop bodies `(EnterLoop, LoopAgain]` are entered only through their
  `EnterLoop`, and a loop's exit lies outside every body with the same loop id.
* `looksStructured prog`: `lookClosed prog`; every instruction continues at addresses with the same
  innermost enclosing look-around (`Sim.encl`); a loop live at the continuation of a look-around is
  live throughout its body; the loops inside a look-around body are live only there.
* `inpOK inp`: an ASCII input holds bytes `< 256`.

The simulation relation (`Sim.StRel`, `Sim.SnapRel`): the PikeVM's explicit stack is, bottom first,
one saved state for every choice record of `bts` (`SetPosition ip pos` ↦ the state at `ip, pos` with
the backtracker's state as `try_backtrack` would restore it; `EnterNonGreedyLoop` ↦ the loop body
entry), then the current state. Groups are equal; a loop slot is related only while control is inside
the body of its loop (there the backtracker's `iters` is the PikeVM's `+ 1`, the entries are equal) —
outside it is dead in both machines (and does differ: the machines leave different `entry` values).
A look-around runs a nested pair of runs related in the same way; afterwards the loop slots written
inside its body differ arbitrarily, which is harmless because they are dead wherever the outer
stack resumes (`Sim.SnapRel.congr`). The machines run in lock step: equal tick counts. -/

open Regress.VM.Sim in
/-- **Lock-step simulation** (`bt_refines_pk`): on related configurations, at addresses whose
innermost enclosing look-around is `J`, the two machines produce corresponding outcomes — same end of
match, final states related (equal capture groups), same number of ticks; both fail after the same
number of ticks; or both exhaust the tick budget. Outcomes are not compared if either machine
reports `.error`. -/
theorem bt_refines_pk (prog : Prog) (hs : loopsStructured prog = true) (hl : looksStructured prog = true)
    (hsimple : simpleProg prog = true) (inp : Input) (hok : inpOK inp = true) (limit sf : Nat)
    (fwd : Bool) (st : Bt.State) (bts : Array BtInsn) (saved : List Pk.State) (cur : Pk.State)
    (steps peakB peakP : Nat) (J : Option Nat)
    (hrel : StRel prog cur.ip st cur) (hsnap : SnapRel prog bts st saved) (hfuel : limit ≤ steps + sf)
    (hJ : encl prog cur.ip = J) (hb : RecsIn prog (enclIs prog J) allTrue allTrue bts) :
    OutSim prog J steps (Bt.run prog inp limit sf cur.ip cur.pos fwd st bts steps peakB)
      (Pk.runStates prog inp limit (sf + 1) (saved.reverse.toArray.push cur) fwd steps peakP) :=
  run_sim hs hl hsimple hok limit sf fwd st bts saved cur steps peakB peakP J hrel hsnap hfuel hJ hb

open Regress.VM.Sim in
/-- **C02 for programs without `Loop1CharBody`**: one anchored attempt of either executor
(`classicalbacktrack::verif_attempt` / `pikevm::verif_attempt`, same tick budget) gives the same
result: the same match end and captures (and tick count), or both fail, or both run out of budget —
unless one of them hits one of its panic/UB sites (`.error`). -/
theorem C02_partial (prog : Prog) (hs : loopsStructured prog = true) (hl : looksStructured prog = true)
    (hsimple : simpleProg prog = true) (inp : Input) (hok : inpOK inp = true) (fuel pos : Nat) :
    match Bt.attempt prog inp fuel pos, Pk.attempt prog inp fuel pos with
    | .error _, _ => True
    | _, .error _ => True
    | .matched e st s _, .matched e' st' s' _ => e = e' ∧ Bt.capsOf st = Pk.capsOf st' ∧ s = s'
    | .failed _ s _, .failed s' _ => s = s'
    | .outOfFuel, .outOfFuel => True
    | _, _ => False := by
  have h := attempt_sim hs hl hsimple hok (inp := inp) fuel pos
  generalize Bt.attempt prog inp fuel pos = ob at h
  generalize Pk.attempt prog inp fuel pos = op at h
  cases ob <;> cases op <;> simp only [OutSim] at h ⊢ <;> try trivial
  · obtain ⟨h1, h2, _, _, h3, _⟩ := h
    exact ⟨h1, by simp [Bt.capsOf, Pk.capsOf, h3.groups], h2⟩
  · exact h.1

open Regress.VM.Sim in
/-- The same for the attempt functions of the two `SearchEnv`s of `VM/Search.lean` (which collapse
errors and fuel exhaustion to `none`): if neither attempt is an `.error`, they agree. -/
theorem C02_partial_searchEnv (prog : Prog) (hs : loopsStructured prog = true)
    (hl : looksStructured prog = true) (hsimple : simpleProg prog = true) (inp : Input)
    (hok : inpOK inp = true) (fuel pos : Nat)
    (hB : ∀ e, Bt.attempt prog inp fuel pos ≠ .error e) (hP : ∀ e, Pk.attempt prog inp fuel pos ≠ .error e) :
    (searchEnvBt prog inp fuel).attempt pos = (searchEnvPk prog inp fuel).attempt pos := by
  have h := C02_partial prog hs hl hsimple inp hok fuel pos
  simp only [searchEnvBt, searchEnvPk]
  generalize Bt.attempt prog inp fuel pos = ob at h hB
  generalize Pk.attempt prog inp fuel pos = op at h hP
  cases ob <;> cases op <;> simp only [] at h ⊢ <;> first
    | rfl
    | exact absurd rfl (hB _)
    | exact absurd rfl (hP _)
    | exact absurd h id
    | (obtain ⟨h1, h2, _⟩ := h; rw [h1, h2])

/-- Match end, captures and tick count of an outcome (`none`: out of budget or `.error`). -/
def btKey : Bt.Outcome → Option (Option (Nat × Api.Caps) × Nat)
  | .matched e st s _ => some (some (e, Bt.capsOf st), s)
  | .failed _ s _ => some (none, s)
  | _ => none

open Regress.VM.Sim in
/-- **Attempt `k + 1` is independent of attempt `k`** (programs without `Loop1CharBody`): an attempt
on a reused matcher state `st` — arbitrary loop slots, groups cleared, as `BacktrackExecutor` has it
after a failed attempt (`failed_attempt_restores`) or after `successful_match` — has the same result
(match end, captures, tick count) as an attempt on a fresh matcher, provided none of the three runs
involved reports `.error`. Both are related to the same PikeVM attempt; at address 0 no loop slot is
live. -/
theorem reused_matcher_attempt (prog : Prog) (hs : loopsStructured prog = true)
    (hl : looksStructured prog = true) (hsimple : simpleProg prog = true) (inp : Input)
    (hok : inpOK inp = true) (fuel pos : Nat) (st : Bt.State)
    (hg : st.groups = (freshState prog 0).groups) (hsz : st.loops.size = prog.loops)
    (hP : ∀ e, Pk.attempt prog inp fuel pos ≠ .error e)
    (hB1 : ∀ e, Bt.attemptWith prog inp fuel pos st ≠ .error e)
    (hB2 : ∀ e, Bt.attemptFresh prog inp fuel pos ≠ .error e) :
    btKey (Bt.attemptWith prog inp fuel pos st) = btKey (Bt.attemptFresh prog inp fuel pos) := by
  have h1 := attemptWith_sim hs hl hsimple hok (inp := inp) fuel pos st hg hsz
  have h2 := attempt_sim hs hl hsimple hok (inp := inp) fuel pos
  change OutSim prog none 0 (Bt.attemptFresh prog inp fuel pos) _ at h2
  generalize Bt.attemptWith prog inp fuel pos st = o1 at h1 hB1
  generalize Bt.attemptFresh prog inp fuel pos = o2 at h2 hB2
  generalize Pk.attempt prog inp fuel pos = op at h1 h2 hP
  cases op with
  | error e => exact absurd rfl (hP e)
  | matched e' q s' p' =>
    cases o1 <;> cases o2 <;> simp only [OutSim] at h1 h2 <;> first
      | exact absurd rfl (hB1 _)
      | exact absurd rfl (hB2 _)
      | exact absurd h1 id
      | exact absurd h2 id
      | skip
    obtain ⟨a1, a2, _, _, a3, _⟩ := h1
    obtain ⟨b1, b2, _, _, b3, _⟩ := h2
    simp [btKey, Bt.capsOf, a1, a2, b1, b2, ← a3.groups, ← b3.groups]
  | failed s' p' =>
    cases o1 <;> cases o2 <;> simp only [OutSim] at h1 h2 <;> first
      | exact absurd rfl (hB1 _)
      | exact absurd rfl (hB2 _)
      | exact absurd h1 id
      | exact absurd h2 id
      | skip
    simp [btKey, h1.1, h2.1]
  | outOfFuel =>
    cases o1 <;> cases o2 <;> simp only [OutSim] at h1 h2 <;> first
      | exact absurd rfl (hB1 _)
      | exact absurd rfl (hB2 _)
      | exact absurd h1 id
      | exact absurd h2 id
      | rfl

/-- `/(a|ab)(c|bcd)*\1/` (dump of the real compiler). -/
def progAlt : Prog :=
  { insns := #[.beginCaptureGroup 0, .alt 4, .byteSeq [0x61], .jump 5, .byteSeq [0x61, 0x62],
               .endCaptureGroup 0, .enterLoop 0 0 none true 15, .resetCaptureGroup 1,
               .beginCaptureGroup 1, .alt 12, .byteSeq [0x63], .jump 13, .byteSeq [0x62, 0x63, 0x64],
               .endCaptureGroup 1, .loopAgain 6, .backRef 0 false, .goal],
    brackets := #[], loops := 1, groups := 2, flags := {}, names := [], startPred := .set [0x61] }

/-- `/(?:a|(b))*?c\1/`: a non-greedy loop. -/
def progLazy : Prog :=
  { insns := #[.enterLoop 0 0 none false 9, .resetCaptureGroup 0, .alt 5, .byteSeq [0x61], .jump 8,
               .beginCaptureGroup 0, .byteSeq [0x62], .endCaptureGroup 0, .loopAgain 0,
               .byteSeq [0x63], .backRef 0 false, .goal],
    brackets := #[], loops := 1, groups := 1, flags := {}, names := [], startPred := .arbitrary }

/-- `/(?:(?=(a|b)c)\1.)+/`: a look-ahead with a capture group inside a loop. -/
def progLookInLoop : Prog :=
  { insns := #[.enterLoop 0 1 none true 14, .resetCaptureGroup 0, .lookahead false 0 1 11,
               .beginCaptureGroup 0, .alt 7, .byteSeq [0x61], .jump 8, .byteSeq [0x62], .endCaptureGroup 0,
               .byteSeq [0x63], .goal, .backRef 0 false, .matchAnyExceptLineTerminator, .loopAgain 0, .goal],
    brackets := #[], loops := 1, groups := 1, flags := {}, names := [], startPred := .arbitrary }

/-- `/(?<=(a))b|(?!ab)(a)b/`: a look-behind and a negative look-ahead. -/
def progLookBehind : Prog :=
  { insns := #[.alt 8, .lookbehind false 0 1 6, .beginCaptureGroup 0, .byteSeq [0x61], .endCaptureGroup 0,
               .goal, .byteSeq [0x62], .jump 15, .lookahead true 1 1 11, .byteSeq [0x61, 0x62], .goal,
               .beginCaptureGroup 1, .byteSeq [0x61], .endCaptureGroup 1, .byteSeq [0x62], .goal],
    brackets := #[], loops := 0, groups := 2, flags := {}, names := [], startPred := .set [0x61, 0x62] }

def inpAlt : Input :=
  { kind := .utf8, bytes := #[0x61, 0x62, 0x63, 0x62, 0x63, 0x64, 0x61, 0x62], unicode := false }
def inpLazy : Input := { kind := .utf8, bytes := #[0x61, 0x62, 0x63, 0x62], unicode := false }
def inpLook : Input := { kind := .utf8, bytes := #[0x61, 0x63, 0x62, 0x63, 0x61, 0x62], unicode := false }

example : wfProg progAlt = true ∧ Sim.simpleProg progAlt = true ∧ Sim.loopsStructured progAlt = true ∧
    Sim.looksStructured progAlt = true ∧ Sim.inpOK inpAlt = true ∧
    Sim.loopTriples progAlt = [(0, 6, 14)] := by decide +kernel
example : wfProg progLazy = true ∧ Sim.simpleProg progLazy = true ∧ Sim.loopsStructured progLazy = true ∧
    Sim.looksStructured progLazy = true := by decide +kernel
example : wfProg progLookInLoop = true ∧ Sim.simpleProg progLookInLoop = true ∧
    Sim.loopsStructured progLookInLoop = true ∧ Sim.looksStructured progLookInLoop = true := by
  decide +kernel
example : wfProg progLookBehind = true ∧ Sim.simpleProg progLookBehind = true ∧
    Sim.loopsStructured progLookBehind = true ∧ Sim.looksStructured progLookBehind = true ∧
    (List.range 16).map (Sim.encl progLookBehind) =
      [none, none, some 1, some 1, some 1, some 1, none, none, none, some 8, some 8, none, none, none,
       none, none] := by
  decide +kernel

/-- The two attempts on `"abcbcdab"`: both match `0..8` with groups `0..2`, `3..6`, in 36 ticks (and the
dead loop slot differs: `entry` 3 vs 6). -/
example :
    (match Bt.attempt progAlt inpAlt 100 0 with
     | .matched e st s _ => some (e, Bt.capsOf st, s, st.loops) | _ => none) =
      some (8, [some (0, 2), some (3, 6)], 36, #[{ iters := 2, entry := 3 }]) ∧
    (match Pk.attempt progAlt inpAlt 100 0 with
     | .matched e st s _ => some (e, Pk.capsOf st, s, st.loops) | _ => none) =
      some (8, [some (0, 2), some (3, 6)], 36, #[{ iters := 2, entry := 6 }]) := by
  constructor <;> decide +kernel
example :
    (match Bt.attempt progLazy inpLazy 100 0 with
     | .matched e st s _ => some (e, Bt.capsOf st, s) | _ => none) = some (4, [some (1, 2)], 18) ∧
    (match Pk.attempt progLazy inpLazy 100 0 with
     | .matched e st s _ => some (e, Pk.capsOf st, s) | _ => none) = some (4, [some (1, 2)], 18) := by
  constructor <;> decide +kernel
/-- With look-arounds: `"acbcab"` at offsets 0 and 5. -/
example :
    (match Bt.attempt progLookInLoop inpLook 100 0 with
     | .matched e st s _ => some (e, Bt.capsOf st, s) | _ => none) = some (4, [some (2, 3)], 35) ∧
    (match Pk.attempt progLookInLoop inpLook 100 0 with
     | .matched e st s _ => some (e, Pk.capsOf st, s) | _ => none) = some (4, [some (2, 3)], 35) ∧
    (match Bt.attempt progLookBehind inpLook 100 5 with
     | .matched e st s _ => some (e, Bt.capsOf st, s) | _ => none) = some (6, [some (4, 5), none], 9) ∧
    (match Pk.attempt progLookBehind inpLook 100 5 with
     | .matched e st s _ => some (e, Pk.capsOf st, s) | _ => none) = some (6, [some (4, 5), none], 9) := by
  refine ⟨?_, ?_, ?_, ?_⟩ <;> decide +kernel

/-! ## Non-vacuity for 1–2, and the witnesses that the statements cannot be strengthened -/

/-- `/(?=(?:ab|c)*)c/` (dump of the real compiler): a loop inside a look-ahead. -/
def progLookLoop : Prog :=
  { insns := #[.lookahead false 0 0 8, .enterLoop 0 0 none true 7, .alt 5, .byteSeq [0x61, 0x62],
               .jump 6, .byteSeq [0x63], .loopAgain 1, .goal, .byteSeq [0x63], .goal],
    brackets := #[], loops := 1, groups := 0, flags := {}, names := [], startPred := .set [0x63] }

/-- `/(?:(?=(a+?))a)*c/`: a capture group inside a look-ahead inside a loop. -/
def progLookGroup : Prog :=
  { insns := #[.enterLoop 0 0 none true 11, .resetCaptureGroup 0, .lookahead false 0 1 9,
               .beginCaptureGroup 0, .byteSeq [0x61], .loop1 0 none false, .byteSeq [0x61],
               .endCaptureGroup 0, .goal, .byteSeq [0x61], .loopAgain 0, .byteSeq [0x63], .goal],
    brackets := #[], loops := 1, groups := 1, flags := {}, names := [], startPred := .arbitrary }

example : wfProg progLookLoop = true ∧ lookClosed progLookLoop = true ∧ lookLoopIds progLookLoop = [0] := by
  decide +kernel
example : wfProg progLookGroup = true ∧ lookClosed progLookGroup = true ∧ lookLoopIds progLookGroup = [] := by
  decide +kernel
example : lookClosed Regressions.OldBacktrack.progBackref = true ∧
    lookLoopIds Regressions.OldBacktrack.progBackref = [] := by decide

example : Sim.simpleProg progLookLoop = true ∧ Sim.loopsStructured progLookLoop = true ∧
    Sim.looksStructured progLookLoop = true := by decide +kernel

def inpABAB : Input := { kind := .utf8, bytes := #[0x61, 0x62, 0x61, 0x62], unicode := false }
def inpAAB : Input := { kind := .utf8, bytes := #[0x61, 0x61, 0x62], unicode := false }

/-- The loop slots of loops inside look-around bodies are really NOT restored: on `"abab"` the attempt
of `/(?=(?:ab|c)*)c/` at offset 0 fails and leaves loop slot 0 at `{iters: 2, entry: 2}` instead of
the initial `{iters: 0, entry: 0}` (the groups are restored, as `failed_attempt_restores` says). -/
theorem look_loops_not_restored :
    (match attempt progLookLoop inpABAB 100 0 with
     | .failed st _ _ => some st
     | _ => none) = some { loops := #[{ iters := 2, entry := 2 }], groups := #[] } ∧
    freshState progLookLoop 0 = { loops := #[{ iters := 0, entry := 0 }], groups := #[] } := by
  constructor <;> decide +kernel

/-- A failing attempt with capture groups, a look-ahead and a loop that is restored exactly
(instance of `failed_attempt_restores_exact`). -/
example : (match attempt progLookGroup inpAAB 100 0 with
     | .failed st steps _ => some (st, steps)
     | _ => none) = some (freshState progLookGroup 0, 26) := by decide +kernel

/-- The frame lemma fails for the pre-repair `EndCaptureGroup` (no undo record): see
`Proofs/Lemmas/Frame.lean`, `namespace Regress.Regressions.OldBacktrack`. -/
theorem old_endGroup_violates_frame :
    ¬ ActFrame Regressions.OldBacktrack.progEnd 0 Regressions.OldBacktrack.stOpen #[.exhausted]
      (Regressions.OldBacktrack.stepOld Regressions.OldBacktrack.progEnd Regressions.OldBacktrack.inpA
        0 1 true Regressions.OldBacktrack.stOpen #[.exhausted]) :=
  Regressions.OldBacktrack.endGroup_old_violates_frame

end Regress.C02

#print axioms Regress.C02.undo_restores_step
#print axioms Regress.C02.undo_restores_goal
#print axioms Regress.C02.undo_restores_backtrack
#print axioms Regress.C02.backtrack_resumes_at_unwind
#print axioms Regress.C02.undo_restores_run
#print axioms Regress.C02.run_footprint
#print axioms Regress.C02.failed_attempt_restores
#print axioms Regress.C02.failed_attempt_restores_exact
#print axioms Regress.C02.failed_btAttempt_restores
#print axioms Regress.C02.bt_refines_pk
#print axioms Regress.C02.C02_partial
#print axioms Regress.C02.C02_partial_searchEnv
#print axioms Regress.C02.reused_matcher_attempt
#print axioms Regress.C02.look_loops_not_restored
#print axioms Regress.C02.old_endGroup_violates_frame
