import Proofs.Lemmas.E2EOpt
import Proofs.Lemmas.E2EParse
import Proofs.Keystone
import Proofs.C02Full
import Proofs.C05Full
import Proofs.Closure
/-!
# End to end: pattern text ⟶ IR semantics ⟷ both executors

Composition of C07 (parser/optimizer/emitter are total), C03 (the optimizer preserves the IR
semantics), Keystone (the emitted bytecode, run by the PikeVM, computes the IR semantics), C02Full (the
backtracker refines the PikeVM), C05Full/C06 (termination bound, safety), C04Sem + Closure (prefilter,
iterator).  Everything below is about `C07.compile` = `Regex::from_unicode` (parse, optimize unless
`no_opt`, emit) and the IR semantics `IR.firstMatch inp re.node p` of the **parsed, unoptimized** tree
`re` (`parse pat fl = .ok re`).

## Side conditions that are now consequences (`Proofs/Lemmas/E2EParse.lean`, `E2EOpt.lean`)

* `WF` of the parsed tree: `C07.parse_output` + `C07.POut_optIn`; of the optimized tree: `C07.optimize_out`.
* `Keystone.rootOK` (`Goal` only as the last thing the root does; back-references name a group `≥ 1`;
  a `Loop1CharBody` body is a one-instruction matcher): `E2E.parse_side` — a second induction over
  the recursive descent — and `E2E.optimize_side`: **every optimizer pass preserves `kok`/`rootOK`**
  (the gap noted in `Proofs/Keystone.lean`).
* `numGroups < 2^32`, `numLoops ≤ 65536`: the parser's `MAX_CAPTURE_GROUPS`/`MAX_LOOPS` checks give
  `≤ 65535` (`E2E.parse_side`; the parser's `loop_count` is exactly the number of `Loop` nodes), the
  optimizer preserves the number of groups and does not increase the number of `Loop` nodes
  (`unroll_loops` only duplicates loop-free bodies: `E2E.isUnrollable_loops`).

## The one side condition that is NOT a consequence: `maxOK`

`kok` also demands that no loop maximum is the literal `usize::MAX = 18446744073709551615`.  The parser
does produce it: `try_consume_decimal_integer_literal` saturates, so every braced quantifier whose
upper bound is written as a decimal `≥ 2^64 - 1` — `a{0,18446744073709551615}`, `a{2,99999999999999999999}`,
`a{18446744073709551615}` — yields `Quantifier { max: Some(usize::MAX) }` (`saturated_max_example`
below).  `emit` writes `max_iters: quant.max.unwrap_or(usize::MAX)`, so the bytecode of such a loop is
*identical* to that of the unbounded `a{0,}`: `rvharness probe '' 'a{0,18446744073709551615}' 'aaa'`
prints `I loop1 0 inf 1` and the matches `0..3`, `3..3`, exactly as for `a*`.  The IR semantics reads
`Some(usize::MAX)` as a bound of `2^64 - 1` iterations, the VM model reads it as "unbounded"; the two
differ only after `2^64 - 1` iterations, which no haystack can provide, but the keystone lemma is
stated with `quantBounded` and that is kept here as the decidable hypothesis `E2E.maxOK re.node` on
the parsed tree.  **Excluded patterns, precisely: those containing a braced quantifier `{n}` or
`{n,m}` whose last number is `≥ 18446744073709551615`.**  No misbehaviour of the real engine is
involved.

## Hypotheses on the compiled program that are kept (decidable, checked per run by the harness)

`C06.wfProgFull`, `Pk.lookLoopProg`, `Sim.loopsStructured`, `Sim.looksStructured` (`ProgPkOK`,
`ProgOK`).  They are the hypotheses of C02Full/C05Full/C06; they are NOT proved here for all emitted
programs (that would be a second, `wfProg`-shaped induction over `Keystone.Code`, including the phase
certificates `mkCert`/`mkOrd` of C06) and are needed only to drop the "the VM run is `Fine`" proviso.
`compile_correct_pk_partial` needs none of them.

All theorems carry the suffix `_partial` because of `maxOK` (and, where stated, `ProgOK`).

## Theorems

* `compiled_tree` — the side conditions are consequences (`Compiled re prog re'`).
* `compile_correct_pk_partial` — PikeVM attempt = IR first match, for every `Fine` run (kept: `maxOK`).
* `compile_correct_pk_safe_partial` — … for every run that does not run out of fuel (kept: `maxOK`,
  `C06.wfProgFull prog`).
* `compile_correct_pk_total_partial` — … for every budget `≥ Pk.lookBound` (kept: `maxOK`, `ProgPkOK prog`).
* `compile_correct_bt_partial` — the same for the backtracker (kept: `maxOK`, `ProgOK prog`).
* `prefilter_sound_emitted_partial` — `Closure.StartPredSound` for compiled programs, every budget.
* `prefilter_transparent_emitted_partial` — C04 end to end: prefiltered search = plain scan = unfold.
* `findIter_spec_partial` — the running search `findIter` = unfold of first matches of the IR semantics
  (additionally kept: `Sim.simpleProg prog` from `Closure.FindHyp`, and `isAnchored prog = false`).

`no_opt` is a flag in `fl`: every theorem covers both pipelines (`compiled_tree` distinguishes them).
The `unicode` hypothesis is `prog.flags.unicode = inp.unicode` (`Utf8Input::new(text,
self.cr.flags.unicode)`).  NB `C07.POut` alone does not imply `rootOK` (it says nothing about `Goal` or
back-reference indices); `rootOK` is derived from `parse … = .ok re` itself (`E2E.parse_shape`).
-/
namespace Regress.EndToEnd

open Regress Regress.IR Regress.VM Regress.Parse Regress.Keystone Regress.C07 Regress.E2E

/- ASCII pattern literal (as in `Proofs/C07.lean`). -/
open Lean in
local macro "pat!" s:str : term => do
  let cs := s.getString.toList.map (fun c => Syntax.mkNumLit (toString c.toNat))
  `(([$(cs.toArray),*] : List Nat))

/-! ## 1. The compiled tree -/

/-- What `compile` emits: the tree `re'` (the parsed tree `re`, optimized unless `no_opt`), with every
side condition of the keystone lemma, and with the IR semantics of `re`. -/
structure Compiled (re : Regex) (prog : Prog) (re' : Regex) : Prop where
  emit : VM.emit re' = .ok prog
  flags : re'.flags = re.flags
  /-- the flags stored in the program (`Utf8Input::new(text, self.cr.flags.unicode)` reads them) -/
  pflags : prog.flags.unicode = re.flags.unicode
  wf : WF re.node
  wf' : WF re'.node
  root : rootOK re'.node = true
  groups : numGroups re'.node ≤ 65535
  loops : numLoops re'.node ≤ 65535
  sem : ∀ {inp : Input} {cs : List Nat}, Utf8Text inp cs → ∀ {p : Nat}, AtBoundary cs p →
    firstMatch inp re'.node p = firstMatch inp re.node p

/-- **The side conditions are consequences** of `parse … = .ok re`, `compile … = .ok prog` and
`maxOK re.node`. -/
theorem emit_flags {r : Regex} {prog : Prog} (he : VM.emit r = .ok prog) :
    prog.flags.unicode = r.flags.unicode := by
  unfold VM.emit emitWith at he
  split at he
  · cases he
  · split at he
    · cases he
    · cases he; rfl

theorem compiled_tree {pat : List Nat} {fl : IR.Flags} {re : Regex} {prog : Prog} {ofuel : Nat}
    (hb : ∀ c ∈ pat, c ≤ 0x10FFFF) (hp : parse pat fl = .ok re) (hc : compile ofuel pat fl = .ok prog)
    (hmax : maxOK re.node = true) : ∃ re', Compiled re prog re' := by
  have ho := parse_output hb hp
  have hin := POut_optIn ho
  obtain ⟨hroot, hloops, hgroups⟩ := parse_side hb hp
  unfold compile at hc
  rw [hp] at hc
  simp only at hc
  cases hno : fl.noOpt with
  | true =>
    simp only [hno, Bool.not_true, Bool.false_eq_true, if_false] at hc
    split at hc
    · cases hc
    · rename_i p he
      cases hc
      exact ⟨re, he, rfl, emit_flags he, hin.1, hin.1, hroot hmax, hgroups, hloops, fun _ _ _ => rfl⟩
  | false =>
    simp only [hno, Bool.not_false, if_true] at hc
    split at hc
    · cases hc
    · rename_i re' hopt
      split at hc
      · cases hc
      · rename_i p he
        cases hc
        have hout := optimize_out hin (POut_sets ho) hopt
        have hside := optimize_side hin hopt
        exact ⟨re', he, hout.2.2, by rw [emit_flags he, hout.2.2], hin.1, hout.1.1.1, hside.2.1 (hroot hmax), by rw [hout.2.1]; exact hgroups,
          Nat.le_trans hside.2.2.1 hloops, fun ht _ hbd => C03.optimize_same_attempt ht hopt hin.1 hbd⟩

/-! ## 2. The PikeVM -/

/-- The outcome `o` of a PikeVM attempt is the answer `m` of the IR semantics: a failure iff there is
no first match, otherwise a match with the same end and the same capture table. -/
def PkAgrees (o : Pk.Outcome) (m : Option St) : Prop :=
  match m with
  | none => ∃ steps peak, o = .failed steps peak
  | some σ => ∃ st steps peak, o = .matched σ.pos st steps peak ∧ capsOfState st = σ.caps

/-- **`compile_correct_pk`** (kept: `maxOK`; proviso: the run is `Fine`).
For every pattern `pat` of code points `≤ 0x10FFFF` and all flags `fl` (with or without `no_opt`), if
`parse pat fl = .ok re` and `compile ofuel pat fl = .ok prog` (any optimizer fuel for which the model
of `optimize` returns), then for every UTF-8 text `inp` (created with the compiled regex's `unicode` flag, as `Utf8Input::new(text,
self.cr.flags.unicode)` does), every char
boundary `p` and every tick budget `fuel` for which the PikeVM attempt ends neither `.outOfFuel` nor
in an `.error`: the attempt fails iff `IR.firstMatch inp re.node p = none`, and otherwise matches with
the end position and the captures of that first match. -/
theorem compile_correct_pk_partial {pat : List Nat} {fl : IR.Flags} {re : Regex} {prog : Prog} {ofuel : Nat}
    (hb : ∀ c ∈ pat, c ≤ 0x10FFFF) (hp : parse pat fl = .ok re) (hc : compile ofuel pat fl = .ok prog)
    (hmax : maxOK re.node = true)
    {inp : Input} {cs : List Nat} (ht : Utf8Text inp cs) (hu : prog.flags.unicode = inp.unicode)
    {p : Nat} (hbd : AtBoundary cs p) (fuel : Nat) (hf : Fine (Pk.attempt prog inp fuel p)) :
    PkAgrees (Pk.attempt prog inp fuel p) (firstMatch inp re.node p) := by
  obtain ⟨re', C⟩ := compiled_tree hb hp hc hmax
  have := keystone_attempt C.emit (by rw [C.flags, ← C.pflags]; exact hu) C.root C.wf'
    (by have := C.groups; omega) (by have := C.loops; omega) ht hbd fuel hf
  rw [C.sem ht hbd] at this
  unfold PkAgrees
  split <;> rename_i heq <;> rw [heq] at this <;> exact this

/-- The structural hypotheses of C05Full/C06 on the compiled program (decidable). -/
def ProgPkOK (prog : Prog) : Bool := C06.wfProgFull prog && Pk.lookLoopProg prog

/-- … and those of C02Full in addition. -/
def ProgOK (prog : Prog) : Bool :=
  ProgPkOK prog && Sim.loopsStructured prog && Sim.looksStructured prog

theorem validAt {inp : Input} {cs : List Nat} (ht : Utf8Text inp cs) {p : Nat} (hbd : AtBoundary cs p) :
    C02Full.ValidAt inp p :=
  .utf8 cs ⟨ht.kind, ht.bytes, ht.scalar⟩
    ⟨AtBoundary.le_len ht hbd, (atBoundary_iff ht (AtBoundary.le_len ht hbd)).1 hbd⟩

/-- With C05Full and C06 a PikeVM attempt with a budget of at least `Pk.lookBound` is `Fine`. -/
theorem pk_fine {prog : Prog} (hok : ProgPkOK prog = true) {inp : Input} {cs : List Nat}
    (ht : Utf8Text inp cs) {p : Nat} (hbd : AtBoundary cs p) (fuel : Nat)
    (hfuel : Pk.lookBound prog inp.len ≤ fuel) : Fine (Pk.attempt prog inp fuel p) := by
  simp only [ProgPkOK, Bool.and_eq_true] at hok
  have hw : wfProg prog = true := by
    have := hok.1; simp only [C06.wfProgFull, Bool.and_eq_true] at this; exact this.1.1.1
  have hterm := C05Full.pk_terminates_with_looks prog hok.2 (C05Full.loop1Scm_of_wfProg hw) inp fuel p hfuel
  have herr := C02Full.pk_attempt_no_error hok.1 (validAt ht hbd) fuel
  generalize Pk.attempt prog inp fuel p = o at hterm herr
  cases o with
  | matched _ _ _ _ => trivial
  | failed _ _ => trivial
  | outOfFuel => exact hterm.elim
  | error e => exact absurd rfl (herr e)

/-- **`compile_correct_pk`, the only proviso being the tick budget** (kept: `maxOK`, `C06.wfProgFull
prog`): with C06 an `.error` is impossible, so the conclusion holds for every budget for which the
PikeVM attempt does not run out of fuel. -/
theorem compile_correct_pk_safe_partial {pat : List Nat} {fl : IR.Flags} {re : Regex} {prog : Prog}
    {ofuel : Nat} (hb : ∀ c ∈ pat, c ≤ 0x10FFFF) (hp : parse pat fl = .ok re)
    (hc : compile ofuel pat fl = .ok prog) (hmax : maxOK re.node = true)
    (hfull : C06.wfProgFull prog = true)
    {inp : Input} {cs : List Nat} (ht : Utf8Text inp cs) (hu : prog.flags.unicode = inp.unicode)
    {p : Nat} (hbd : AtBoundary cs p) (fuel : Nat) (hfuel : Pk.attempt prog inp fuel p ≠ .outOfFuel) :
    PkAgrees (Pk.attempt prog inp fuel p) (firstMatch inp re.node p) := by
  refine compile_correct_pk_partial hb hp hc hmax ht hu hbd fuel ?_
  have herr := C02Full.pk_attempt_no_error hfull (validAt ht hbd) fuel
  generalize Pk.attempt prog inp fuel p = o at hfuel herr
  cases o with
  | matched _ _ _ _ => trivial
  | failed _ _ => trivial
  | outOfFuel => exact absurd rfl hfuel
  | error e => exact absurd rfl (herr e)

/-- **`compile_correct_pk`, no proviso** (kept: `maxOK`, `ProgPkOK prog`).  For programs passing the
structural checks of C05Full/C06, every budget `fuel ≥ Pk.lookBound prog |haystack|` gives exactly the
answer of the IR semantics of the parsed tree. -/
theorem compile_correct_pk_total_partial {pat : List Nat} {fl : IR.Flags} {re : Regex} {prog : Prog}
    {ofuel : Nat} (hb : ∀ c ∈ pat, c ≤ 0x10FFFF) (hp : parse pat fl = .ok re)
    (hc : compile ofuel pat fl = .ok prog) (hmax : maxOK re.node = true) (hok : ProgPkOK prog = true)
    {inp : Input} {cs : List Nat} (ht : Utf8Text inp cs) (hu : prog.flags.unicode = inp.unicode)
    {p : Nat} (hbd : AtBoundary cs p) (fuel : Nat) (hfuel : Pk.lookBound prog inp.len ≤ fuel) :
    PkAgrees (Pk.attempt prog inp fuel p) (firstMatch inp re.node p) :=
  compile_correct_pk_partial hb hp hc hmax ht hu hbd fuel (pk_fine hok ht hbd fuel hfuel)

/-! ## 3. The backtracker -/

/-- The outcome `o` of a backtracker attempt is the answer `m` of the IR semantics (captures as the
API reports them, `GroupData::as_range`). -/
def BtAgrees (o : Bt.Outcome) (m : Option St) : Prop :=
  match m with
  | none => ∃ st steps peak, o = .failed st steps peak
  | some σ => ∃ st steps peak, o = .matched σ.pos st steps peak ∧ Bt.capsOf st = σ.caps.map capRange

/-- **`compile_correct_bt`** (kept: `maxOK`, `ProgOK prog`).  The same for the backtracking executor,
through C02Full: for every budget `fuel ≥ Pk.lookBound prog |haystack|` the attempt of
`classicalbacktrack` fails iff the IR semantics has no first match at `p`, and otherwise matches with
the same end and the same capture ranges. -/
theorem compile_correct_bt_partial {pat : List Nat} {fl : IR.Flags} {re : Regex} {prog : Prog}
    {ofuel : Nat} (hb : ∀ c ∈ pat, c ≤ 0x10FFFF) (hp : parse pat fl = .ok re)
    (hc : compile ofuel pat fl = .ok prog) (hmax : maxOK re.node = true) (hok : ProgOK prog = true)
    {inp : Input} {cs : List Nat} (ht : Utf8Text inp cs) (hu : prog.flags.unicode = inp.unicode)
    {p : Nat} (hbd : AtBoundary cs p) (fuel : Nat) (hfuel : Pk.lookBound prog inp.len ≤ fuel) :
    BtAgrees (Bt.attempt prog inp fuel p) (firstMatch inp re.node p) := by
  simp only [ProgOK, Bool.and_eq_true] at hok
  obtain ⟨⟨hpk, hls⟩, hlk⟩ := hok
  have hfull : C06.wfProgFull prog = true := by
    simp only [ProgPkOK, Bool.and_eq_true] at hpk; exact hpk.1
  have hP := compile_correct_pk_total_partial hb hp hc hmax hpk ht hu hbd _ (Nat.le_refl _)
  have hsim := C02Full.C02_loop1_full prog hls hlk hfull inp p (validAt ht hbd) fuel
    (Pk.lookBound prog inp.len) hfuel
  unfold PkAgrees at hP
  unfold BtAgrees
  generalize Bt.attempt prog inp fuel p = ob at hsim
  generalize Pk.attempt prog inp (Pk.lookBound prog inp.len) p = op at hsim hP
  split at hP
  · obtain ⟨steps, peak, rfl⟩ := hP
    cases ob <;> simp only at hsim
    exact ⟨_, _, _, rfl⟩
  · rename_i σ _
    obtain ⟨st, steps, peak, rfl, hcaps⟩ := hP
    cases ob <;> simp only at hsim
    rename_i e stb s pk
    obtain ⟨rfl, hc2, _⟩ := hsim
    exact ⟨stb, s, pk, rfl, by rw [hc2, capsOf_eq, hcaps]⟩

/-! ## 4. The prefilter and the iterator -/

open Regress.Api Regress.Closure Regress.C09 in
/-- `emit` stores the start predicate computed from the emitted tree. -/
theorem emit_startPred {r : Regex} {prog : Prog} (he : VM.emit r = .ok prog) :
    predicateForRe r = .ok prog.startPred := by
  unfold VM.emit emitWith at he
  split at he
  · cases he
  · rename_i sp hsp
    split at he
    · cases he
    · cases he; exact hsp

theorem atBoundary_of_vutf8 {inp : Input} {cs : List Nat} (ht : Utf8Text inp cs) {p : Nat}
    (hv : Safety.VUtf8 inp p) : AtBoundary cs p :=
  (atBoundary_iff ht hv.1).2 hv.2

section Search
open Regress.Api Regress.Closure Regress.C09

variable {pat : List Nat} {fl : IR.Flags} {re : Regex} {prog : Prog} {ofuel : Nat}
  {inp : Input} {cs : List Nat}

/-- A successful backtracker attempt — with ANY budget — at a char boundary is a first match of the IR
semantics. -/
theorem bt_match_is_ir_match_partial (hb : ∀ c ∈ pat, c ≤ 0x10FFFF) (hp : parse pat fl = .ok re)
    (hc : compile ofuel pat fl = .ok prog) (hmax : maxOK re.node = true) (hok : ProgOK prog = true)
    (ht : Utf8Text inp cs) (hu : prog.flags.unicode = inp.unicode) {p : Nat} (hbd : AtBoundary cs p)
    (fuel : Nat) (hm : (searchEnvBt prog inp fuel).attempt p ≠ none) : firstMatch inp re.node p ≠ none := by
  intro hnone
  have hne : Bt.attempt prog inp fuel p ≠ .outOfFuel := by
    intro h; apply hm; simp only [searchEnvBt, h]
  have hmono := Bt.attempt_fuel_mono prog inp (Nat.le_max_left fuel (Pk.lookBound prog inp.len)) p hne
  have hB := compile_correct_bt_partial hb hp hc hmax hok ht hu hbd (max fuel (Pk.lookBound prog inp.len))
    (Nat.le_max_right _ _)
  rw [hmono, hnone] at hB
  obtain ⟨st, steps, peak, h⟩ := hB
  apply hm; simp only [searchEnvBt, h]

/-- **`prefilter_sound_emitted`** (kept: `maxOK`, `ProgOK prog`).  For a compiled program the start
predicate stored in the program is sound for the backtracker's attempts, for every tick budget: an
attempt can only succeed at a char boundary whose following bytes the start predicate admits.  (Keystone
`VM ⟹ IR` + C04Sem `predicate_for_re_sound` on the emitted tree + C03.) -/
theorem prefilter_sound_emitted_partial (hb : ∀ c ∈ pat, c ≤ 0x10FFFF) (hp : parse pat fl = .ok re)
    (hc : compile ofuel pat fl = .ok prog) (hmax : maxOK re.node = true) (hok : ProgOK prog = true)
    (ht : Utf8Text inp cs) (hu : prog.flags.unicode = inp.unicode) (fuel : Nat) :
    StartPredSound prog.startPred inp (searchEnvBt prog inp fuel) := by
  intro r hr hne
  obtain ⟨re', C⟩ := compiled_tree hb hp hc hmax
  have hbd := atBoundary_of_vutf8 ht hr
  have hm := bt_match_is_ir_match_partial hb hp hc hmax hok ht hu hbd fuel hne
  rw [← C.sem ht hbd] at hm
  exact (C04Sem.predicate_for_re_sound ht re' C.wf' (emit_startPred C.emit) hbd hm).2

theorem progOK_full (hok : ProgOK prog = true) : C06.wfProgFull prog = true := by
  simp only [ProgOK, ProgPkOK, Bool.and_eq_true] at hok; exact hok.1.1.1

/-- The start predicate of a compiled program only mentions UTF-8 sequence-start bytes. -/
theorem leads_emitted_partial (hb : ∀ c ∈ pat, c ≤ 0x10FFFF) (hp : parse pat fl = .ok re)
    (hc : compile ofuel pat fl = .ok prog) (hmax : maxOK re.node = true) : IR.LeadsSP prog.startPred := by
  obtain ⟨re', C⟩ := compiled_tree hb hp hc hmax
  exact C04Sem.start_pred_lead_bytes re' C.wf' (emit_startPred C.emit)

/-- **C04 end to end** (kept: `maxOK`, `ProgOK prog`): for a compiled program, any tick budget and any
start offset the API accepts, the backtracking executor's iterator with the byte-scan prefilter
(`memchr`/`memmem`/bitmap scan for `prog.startPred`) yields exactly the unfold of first matches along
the char boundaries, and from every char boundary `next_match_with_prefix_search` returns what the
plain scan (`find_bytes = Some`) returns: same match, same captures, same `next_start`. -/
theorem prefilter_transparent_emitted_partial (hb : ∀ c ∈ pat, c ≤ 0x10FFFF) (hp : parse pat fl = .ok re)
    (hc : compile ofuel pat fl = .ok prog) (hmax : maxOK re.node = true) (hok : ProgOK prog = true)
    (ht : Utf8Text inp cs) (hu : prog.flags.unicode = inp.unicode) (fuel : Nat) {start : Nat}
    (hs : Safety.VUtf8 inp start ∨ inp.len < start) :
    collectK (searchEnvBt prog inp fuel) .btPrefix start = unfoldIter (searchEnvBt prog inp fuel) start ∧
    ∀ p, Safety.VUtf8 inp p → nextMatchPrefix (searchEnvBt prog inp fuel) p =
      nextMatchPrefix { searchEnvBt prog inp fuel with findBytes := some } p :=
  iter_is_unfold_bt (progOK_full hok) (leads_emitted_partial hb hp hc hmax) ⟨ht.kind, ht.bytes, ht.scalar⟩ fuel
    (prefilter_sound_emitted_partial hb hp hc hmax hok ht hu fuel) hs

/-- The search environment of the specification: the attempts are the first matches of the IR
semantics of the parsed tree; `next_right_pos` is the input's.  (`unfoldIter` does not look at
`findBytes`; it is set to the program's byte scan only to make the comparison below a plain equation.) -/
def specEnv (inp : Input) (n : Node) (prog : Prog) : SearchEnv :=
  { len := inp.len
    attempt := fun p => (firstMatch inp n p).map (fun s => (s.pos, s.caps.map capRange))
    nextRightPos := nextRightPosOpt inp
    findBytes := findBytesPred prog.startPred inp.bytes
    names := prog.names }

/-- With a budget of at least `Pk.lookBound` per attempt, the backtracker's attempt at a char boundary
is the attempt of the specification. -/
theorem attempt_eq_spec_partial (hb : ∀ c ∈ pat, c ≤ 0x10FFFF) (hp : parse pat fl = .ok re)
    (hc : compile ofuel pat fl = .ok prog) (hmax : maxOK re.node = true) (hok : ProgOK prog = true)
    (ht : Utf8Text inp cs) (hu : prog.flags.unicode = inp.unicode) (fuel : Nat)
    (hfuel : Pk.lookBound prog inp.len ≤ fuel) {p : Nat} (hv : Safety.VUtf8 inp p) :
    (searchEnvBt prog inp fuel).attempt p = (specEnv inp re.node prog).attempt p := by
  have hB := compile_correct_bt_partial hb hp hc hmax hok ht hu (atBoundary_of_vutf8 ht hv) fuel hfuel
  simp only [searchEnvBt, specEnv]
  unfold BtAgrees at hB
  split at hB
  · rename_i heq
    obtain ⟨st, steps, peak, h⟩ := hB
    rw [h, heq]; rfl
  · rename_i σ heq
    obtain ⟨st, steps, peak, h, hcaps⟩ := hB
    rw [h, heq]; simp only [Option.map_some, hcaps]

theorem restrict_eq_spec_partial (hb : ∀ c ∈ pat, c ≤ 0x10FFFF) (hp : parse pat fl = .ok re)
    (hc : compile ofuel pat fl = .ok prog) (hmax : maxOK re.node = true) (hok : ProgOK prog = true)
    (ht : Utf8Text inp cs) (hu : prog.flags.unicode = inp.unicode) (fuel : Nat)
    (hfuel : Pk.lookBound prog inp.len ≤ fuel) :
    restrictEnv (vb inp) (searchEnvBt prog inp fuel) = restrictEnv (vb inp) (specEnv inp re.node prog) := by
  have : (fun p => if vb inp p = true then (searchEnvBt prog inp fuel).attempt p else none) =
      (fun p => if vb inp p = true then (specEnv inp re.node prog).attempt p else none) := by
    funext p
    by_cases hv : vb inp p = true
    · rw [if_pos hv, if_pos hv]
      exact attempt_eq_spec_partial hb hp hc hmax hok ht hu fuel hfuel (vb_iff.mp hv)
    · rw [if_neg hv, if_neg hv]
  unfold restrictEnv
  rw [this]
  rfl

/-- The specification environment is well-behaved on char boundaries. -/
theorem envOKOn_spec_partial (hb : ∀ c ∈ pat, c ≤ 0x10FFFF) (hp : parse pat fl = .ok re)
    (hc : compile ofuel pat fl = .ok prog) (hmax : maxOK re.node = true) (hok : ProgOK prog = true)
    (ht : Utf8Text inp cs) (hu : prog.flags.unicode = inp.unicode) :
    EnvOKOn (vb inp) (specEnv inp re.node prog) := by
  have hOn := envOKOn_bt (progOK_full hok) (leads_emitted_partial hb hp hc hmax) ⟨ht.kind, ht.bytes, ht.scalar⟩
    (Pk.lookBound prog inp.len)
  exact
    { v_le := hOn.v_le
      attempt_range := fun p e c hv ha => hOn.attempt_range p e c hv (by
        rw [attempt_eq_spec_partial hb hp hc hmax hok ht hu _ (Nat.le_refl _) (vb_iff.mp hv)]; exact ha)
      next_gt := hOn.next_gt
      find_range := hOn.find_range }

/-- **`find_iter` end to end** (kept: `maxOK`, `ProgOK prog`, `Sim.simpleProg prog` — the running search
with one reused matcher is related to the pure iterator only for programs without `Loop1CharBody`,
`Closure.FindHyp` —, and the program is not `StartAnchored`).  Whenever the running search of the
backtracking executor — byte-scan prefilter, one reused matcher, tick budget `fuel ≥ Pk.lookBound` —
returns a list of matches, that list is `unfoldIter` of the specification environment: repeatedly, the
first char boundary at or after the cursor at which the IR semantics of the *parsed* tree has a match,
with the end and the captures of that first match; then on from the end (one char further after an
empty match). -/
theorem findIter_spec_partial (hb : ∀ c ∈ pat, c ≤ 0x10FFFF) (hp : parse pat fl = .ok re)
    (hc : compile ofuel pat fl = .ok prog) (hmax : maxOK re.node = true) (hok : ProgOK prog = true)
    (hsimple : Sim.simpleProg prog = true) (hna : isAnchored prog = false)
    (ht : Utf8Text inp cs) (hu : prog.flags.unicode = inp.unicode) (fuel : Nat)
    (hfuel : Pk.lookBound prog inp.len ≤ fuel) {start : Nat}
    (hs : Safety.VUtf8 inp start ∨ inp.len < start) {ms : List MatchR}
    (h : findIter .bt prog inp start fuel = .ok ms) :
    ms = unfoldIter (specEnv inp re.node prog) start := by
  have hfull := progOK_full hok
  have hleads := leads_emitted_partial hb hp hc hmax
  have ht' : Safety.Utf8Text inp cs := ⟨ht.kind, ht.bytes, ht.scalar⟩
  have hok' := hok
  simp only [ProgOK, Bool.and_eq_true] at hok'
  have H : FindHyp prog inp cs := ⟨hfull, hleads, hok'.1.2, hok'.2, hsimple, ht'⟩
  have hk : kindOf prog .bt = .btPrefix := by simp [kindOf, hna]
  have hs' : vb inp start = true ∨ (searchEnvBt prog inp fuel).len < start :=
    hs.imp (fun h => vb_iff.mpr h) (fun h => h)
  rw [findIter_eq_collectK H fuel hs h, hk,
    (prefilter_transparent_emitted_partial hb hp hc hmax hok ht hu fuel hs).1,
    ← unfoldIter_restrict (envOKOn_bt hfull hleads ht' fuel) hs',
    restrict_eq_spec_partial hb hp hc hmax hok ht hu fuel hfuel,
    unfoldIter_restrict (envOKOn_spec_partial hb hp hc hmax hok ht hu) hs']

end Search

/-! ## 5. Non-vacuity: real compiled patterns -/

section Examples
open Regress.Api Regress.Closure Regress.C09

/-- `/(?:(a|[bc]){2,3}|x+?(?=y))d/`: a general loop with a capture group (reset per iteration), a
bracket, a lazy `Loop1CharBody`, a look-ahead; start predicate `Set {a, b, c, x}`. -/
def eePat : List Nat := pat! "(?:(a|[bc]){2,3}|x+?(?=y))d"
def eeRe : Regex := match parse eePat {} with | .ok r => r | .error _ => ⟨.empty, {}⟩
def eeProg : Prog :=
  { insns := #[.alt 11, .enterLoop 0 2 (some 3) true 10, .resetCaptureGroup 0, .beginCaptureGroup 0, .alt 7,
      .byteSeq [0x61], .jump 8, .byteSet [0x62, 0x63], .endCaptureGroup 0, .loopAgain 1, .jump 17, .byteSeq [0x78],
      .loop1 0 none false, .byteSeq [0x78], .lookahead false 1 1 17, .byteSeq [0x79], .goal, .byteSeq [0x64], .goal],
    brackets := #[], loops := 1, groups := 1, flags := {}, names := [], startPred := .set [0x61, 0x62, 0x63, 0x78] }
/-- "éabcd" -/
def eeInp : Input := { kind := .utf8, bytes := Utf8.text [0xE9, 0x61, 0x62, 0x63, 0x64], unicode := false }

theorem eeBnd : ∀ c ∈ eePat, c ≤ 0x10FFFF := by decide
theorem eeParse : parse eePat {} = .ok eeRe := by
  have h : (match parse eePat {} with | .ok _ => true | .error _ => false) = true := by decide +kernel
  unfold eeRe
  split
  · rename_i heq; rw [heq]
  · rename_i heq; rw [heq] at h; cases h
theorem eeCompile : compile (compileFuel eePat {}) eePat {} = .ok eeProg := by
  have h : (match compile (compileFuel eePat {}) eePat {} with
      | .ok p => decide (p = eeProg) | .error _ => false) = true := by decide +kernel
  cases he : compile (compileFuel eePat {}) eePat {} with
  | error e => rw [he] at h; cases h
  | ok p => rw [he] at h; simp at h; rw [h]
theorem eeMax : maxOK eeRe.node = true := by decide +kernel
theorem eeOK : ProgOK eeProg = true := by decide +kernel
theorem eeUni : eeProg.flags.unicode = eeInp.unicode := rfl
attribute [irreducible] eeRe
theorem eeText : Utf8Text eeInp [0xE9, 0x61, 0x62, 0x63, 0x64] := ⟨rfl, rfl, by decide⟩
theorem eeBoundary : AtBoundary [0xE9, 0x61, 0x62, 0x63, 0x64] 2 := ⟨1, by decide, by decide⟩

example (fuel : Nat) (hf : Fine (Pk.attempt eeProg eeInp fuel 2)) :
    PkAgrees (Pk.attempt eeProg eeInp fuel 2) (firstMatch eeInp eeRe.node 2) :=
  compile_correct_pk_partial eeBnd eeParse eeCompile eeMax eeText eeUni eeBoundary fuel hf

example (fuel : Nat) (hfuel : Pk.attempt eeProg eeInp fuel 2 ≠ .outOfFuel) :
    PkAgrees (Pk.attempt eeProg eeInp fuel 2) (firstMatch eeInp eeRe.node 2) :=
  compile_correct_pk_safe_partial eeBnd eeParse eeCompile eeMax
    (by have := eeOK; simp only [ProgOK, ProgPkOK, Bool.and_eq_true] at this; exact this.1.1.1) eeText eeUni
    eeBoundary fuel hfuel

example (fuel : Nat) (hfuel : Pk.lookBound eeProg eeInp.len ≤ fuel) :
    PkAgrees (Pk.attempt eeProg eeInp fuel 2) (firstMatch eeInp eeRe.node 2) :=
  compile_correct_pk_total_partial eeBnd eeParse eeCompile eeMax
    (by have := eeOK; simp only [ProgOK, Bool.and_eq_true] at this; exact this.1.1) eeText eeUni eeBoundary fuel hfuel

example (fuel : Nat) (hfuel : Pk.lookBound eeProg eeInp.len ≤ fuel) :
    BtAgrees (Bt.attempt eeProg eeInp fuel 2) (firstMatch eeInp eeRe.node 2) :=
  compile_correct_bt_partial eeBnd eeParse eeCompile eeMax eeOK eeText eeUni eeBoundary fuel hfuel

example (fuel : Nat) : StartPredSound eeProg.startPred eeInp (searchEnvBt eeProg eeInp fuel) :=
  prefilter_sound_emitted_partial eeBnd eeParse eeCompile eeMax eeOK eeText eeUni fuel

example (fuel : Nat) :
    collectK (searchEnvBt eeProg eeInp fuel) .btPrefix 0 = unfoldIter (searchEnvBt eeProg eeInp fuel) 0 :=
  (prefilter_transparent_emitted_partial eeBnd eeParse eeCompile eeMax eeOK eeText eeUni fuel
    (Or.inl (by decide +kernel))).1

/-- What the three sides actually compute here: the match `2..6` with group 1 = `4..5`. -/
example : (firstMatch eeInp eeRe.node 2).map (fun σ => (σ.pos, σ.caps)) = some (6, [(some 4, some 5)]) := by
  decide +kernel
example : (match Bt.attempt eeProg eeInp 1000 2 with
    | .matched e st _ _ => some (e, Bt.capsOf st) | _ => none) = some (6, [some (4, 5)]) := by decide +kernel
example : (match Pk.attempt eeProg eeInp 1000 2 with
    | .matched e st _ _ => some (e, capsOfState st) | _ => none) = some (6, [(some 4, some 5)]) := by
  decide +kernel

/-- `/(?:ab|c)+d/`: no `Loop1CharBody`, start predicate `Set {a, c}`, not anchored: `findIter_spec_partial`
applies. -/
def eePatB : List Nat := pat! "(?:ab|c)+d"
def eeReB : Regex := match parse eePatB {} with | .ok r => r | .error _ => ⟨.empty, {}⟩
def eeProgB : Prog :=
  { insns := #[.alt 3, .byteSeq [0x61, 0x62], .jump 4, .byteSeq [0x63], .enterLoop 0 0 none true 10, .alt 8,
      .byteSeq [0x61, 0x62], .jump 9, .byteSeq [0x63], .loopAgain 4, .byteSeq [0x64], .goal],
    brackets := #[], loops := 1, groups := 0, flags := {}, names := [], startPred := .set [0x61, 0x63] }
/-- "abcdédc cd" -/
def eeInpB : Input :=
  { kind := .utf8, bytes := Utf8.text [0x61, 0x62, 0x63, 0x64, 0xE9, 0x64, 0x63, 0x20, 0x63, 0x64], unicode := false }

theorem eeBndB : ∀ c ∈ eePatB, c ≤ 0x10FFFF := by decide
theorem eeParseB : parse eePatB {} = .ok eeReB := by
  have h : (match parse eePatB {} with | .ok _ => true | .error _ => false) = true := by decide +kernel
  unfold eeReB
  split
  · rename_i heq; rw [heq]
  · rename_i heq; rw [heq] at h; cases h
theorem eeCompileB : compile (compileFuel eePatB {}) eePatB {} = .ok eeProgB := by
  have h : (match compile (compileFuel eePatB {}) eePatB {} with
      | .ok p => decide (p = eeProgB) | .error _ => false) = true := by decide +kernel
  cases he : compile (compileFuel eePatB {}) eePatB {} with
  | error e => rw [he] at h; cases h
  | ok p => rw [he] at h; simp at h; rw [h]
theorem eeTextB : Utf8Text eeInpB [0x61, 0x62, 0x63, 0x64, 0xE9, 0x64, 0x63, 0x20, 0x63, 0x64] :=
  ⟨rfl, rfl, by decide⟩

attribute [irreducible] eeReB

example : maxOK eeReB.node = true ∧ ProgOK eeProgB = true ∧ Sim.simpleProg eeProgB = true ∧
    isAnchored eeProgB = false ∧ eeProgB.startPred = .set [0x61, 0x63] := by decide +kernel

example (fuel : Nat) (hfuel : Pk.lookBound eeProgB eeInpB.len ≤ fuel) (ms : List MatchR)
    (h : findIter .bt eeProgB eeInpB 0 fuel = .ok ms) : ms = unfoldIter (specEnv eeInpB eeReB.node eeProgB) 0 :=
  findIter_spec_partial eeBndB eeParseB eeCompileB (by decide +kernel) (by decide +kernel) (by decide +kernel)
    (by decide +kernel) eeTextB rfl fuel hfuel (Or.inl (by decide +kernel)) h

/-- Both sides, evaluated (`0..4` "abcd" and `9..11` "cd"; the budget 1000 is far below the bound of
the theorem and already suffices). -/
example : (match findIter .bt eeProgB eeInpB 0 1000 with | .ok ms => some (ms.map (·.range)) | .error _ => none) =
    some [(0, 4), (9, 11)] := by decide +kernel
example : (unfoldIter (specEnv eeInpB eeReB.node eeProgB) 0).map (·.range) = [(0, 4), (9, 11)] := by
  decide +kernel

/-! ### The excluded patterns: a saturated loop maximum -/

/-- `/a{0,18446744073709551615}/` parses to `Cat [Loop { min: 0, max: Some(usize::MAX) } 'a', Goal]`:
`maxOK` and `rootOK` fail for the parser's output … -/
theorem saturated_max_example :
    (match parse (pat! "a{0,18446744073709551615}") {} with
     | .ok ⟨.cat [.loop (.char 0x61) q 0 0, .goal], _⟩ =>
       some (q.min, q.max, maxOK (.cat [.loop (.char 0x61) q 0 0, .goal]),
         rootOK (.cat [.loop (.char 0x61) q 0 0, .goal]))
     | _ => none) = some (0, some 18446744073709551615, false, false) := by decide +kernel

/-- … as for every larger literal (`try_consume_decimal_integer_literal` saturates) … -/
example :
    (match parse (pat! "a{2,99999999999999999999}") {} with
     | .ok ⟨.cat [.loop (.char 0x61) q 0 0, .goal], _⟩ => some (q.min, q.max)
     | _ => none) = some (2, some 18446744073709551615) := by decide +kernel

/-- … whereas `usize::MAX - 1` is an ordinary bounded loop … -/
example :
    (match parse (pat! "a{0,18446744073709551614}") {} with
     | .ok r => some (maxOK r.node, rootOK r.node) | .error _ => none) = some (true, true) := by decide +kernel

/-- … and the program compiled for the saturated pattern is, instruction for instruction, the
program of `/a*/` (`emit` writes `max.unwrap_or(usize::MAX)`): the real engine (`rvharness probe ''
'a{0,18446744073709551615}' 'aaa'`: `I loop1 0 inf 1`, matches `0..3` and `3..3`) treats it as an
unbounded loop. -/
example :
    (match compile 100 (pat! "a{0,18446744073709551615}") {}, compile 100 (pat! "a*") {} with
     | .ok p, .ok q => decide (p = q) && decide (p =
         { insns := #[.loop1 0 none true, .byteSeq [0x61], .goal], brackets := #[], loops := 0, groups := 0,
           flags := {}, names := [], startPred := .arbitrary })
     | _, _ => false) = true := by decide +kernel

end Examples


end Regress.EndToEnd

#print axioms Regress.EndToEnd.compiled_tree
#print axioms Regress.EndToEnd.compile_correct_pk_partial
#print axioms Regress.EndToEnd.compile_correct_pk_safe_partial
#print axioms Regress.EndToEnd.compile_correct_pk_total_partial
#print axioms Regress.EndToEnd.compile_correct_bt_partial
#print axioms Regress.EndToEnd.prefilter_sound_emitted_partial
#print axioms Regress.EndToEnd.prefilter_transparent_emitted_partial
#print axioms Regress.EndToEnd.findIter_spec_partial
#print axioms Regress.EndToEnd.saturated_max_example
