import Proofs.Lemmas.AsciiAgree
/-!
# C13 — the ASCII entry points agree with the UTF-8 ones on ASCII haystacks

Models: `RegressModel/VM/{Input,Backtrack,Pike,Search}.lean` (of `src/indexing.rs`, `src/cursor.rs`,
`src/matchers.rs`, `src/scm.rs`, `src/classicalbacktrack.rs`, `src/pikevm.rs`, `src/exec.rs`).

For `bytes : Array Nat`, `unicode : Bool`:
`A bytes unicode` is the `AsciiInput`, `U bytes unicode` the `Utf8Input` over the same bytes; the only
hypothesis on the haystack is `hascii : ∀ b ∈ bytes, b < 128`.
All theorems are equalities of full results, `.error`/`outOfFuel` outcomes and the `verif::fuel`
counters included.

Summary of what is (not) needed:
* every primitive agrees at **every** position, except `next_right_pos`/`next_left_pos`
  (`pos ≤ size` needed, §1) and the pure `fold`/`try_from` (agree on elements `< 128`, §2);
* `Bt.step` needs `pos ≤ size` (only because of `Char(c)`, `c ≥ 128`, and `Loop1CharBody`),
  `Bt.tryBacktrack` needs the `GreedyLoop1Char.max`/`NonGreedyLoop1Char.min` fields `≤ size`; the run
  invariant `Inv` is the closure of these two conditions (§3). Nothing is needed of the `State`;
* the PikeVM needs **no** invariant at all (§4);
* `findIter`/`findIterStats` agree unconditionally (§5); the proof uses that match ends are `≤ size`.
No disagreement between the two entry points was found.
-/
namespace Regress.C13

open Regress Regress.VM

/-- `AsciiInput { input: bytes, unicode }`. -/
abbrev A (bytes : Array Nat) (unicode : Bool) : Input := { kind := .ascii, bytes, unicode }
/-- `Utf8Input { input: bytes, unicode }`. -/
abbrev U (bytes : Array Nat) (unicode : Bool) : Input := { kind := .utf8, bytes, unicode }

/-! ## Programs used in the non-vacuity examples (copied from `rvharness probe`) -/

/-- `/a+b/`. -/
def progAPlusB : Prog :=
  { insns := #[.byteSeq [0x61], .loop1 0 none true, .byteSeq [0x61], .byteSeq [0x62], .goal],
    brackets := #[], loops := 0, groups := 0, flags := {}, names := [], startPred := .set [0x61] }

/-- `/(?<=a)b|\bc.?/`. -/
def progLook : Prog :=
  { insns := #[.alt 6, .lookbehind false 0 0 4, .byteSeq [0x61], .goal, .byteSeq [0x62], .jump 10,
               .wordBoundary false, .byteSeq [0x63], .loop1 0 (some 1) true,
               .matchAnyExceptLineTerminator, .goal],
    brackets := #[], loops := 0, groups := 0, flags := {}, names := [], startPred := .arbitrary }

/-- `/(a)\1/i`. -/
def progBackrefI : Prog :=
  { insns := #[.beginCaptureGroup 0, .byteSet [0x41, 0x61], .endCaptureGroup 0, .backRef 0 true, .goal],
    brackets := #[], loops := 0, groups := 1, flags := { icase := true }, names := [],
    startPred := .set [0x41, 0x61] }

/-- `/(?:ab)*?c/`. -/
def progLazy : Prog :=
  { insns := #[.enterLoop 0 0 none false 3, .byteSeq [0x61, 0x62], .loopAgain 0, .byteSeq [0x63], .goal],
    brackets := #[], loops := 1, groups := 0, flags := {}, names := [], startPred := .arbitrary }

/-- Hand-written: `Char(U+0100)` (a `char` but not a `u8`) then `Goal`. -/
def progChar100 : Prog :=
  { insns := #[.char 0x100, .goal], brackets := #[], loops := 0, groups := 0, flags := {},
    names := [], startPred := .arbitrary }

/-- `"aab"`. -/
def hayAab : Array Nat := #[0x61, 0x61, 0x62]
/-- `"ab c"`. -/
def hayAbC : Array Nat := #[0x61, 0x62, 0x20, 0x63]

example : ∀ b ∈ hayAab, b < 128 := by decide
example : ∀ b ∈ hayAbC, b < 128 := by decide

/-! ## 1. The primitives of `VM/Input.lean` -/

/-- Every primitive used by the interpreters returns the same value for `A` and `U` at **every**
position `pos` (also out of range, where both are `.error ()`/`none`), with the two exceptions of
`prims_agree_in_range`. `bracketTest`, `isWordChar`, `isWordCharUnicodeIcase`, `isLineTerminator`,
`charsetContains`, … take no input. -/
theorem prims_agree {bytes : Array Nat} (hascii : ∀ b ∈ bytes, b < 128) (unicode fwd : Bool)
    (pos : Nat) :
    Input.nextRight (A bytes unicode) pos = Input.nextRight (U bytes unicode) pos ∧
    Input.nextLeft (A bytes unicode) pos = Input.nextLeft (U bytes unicode) pos ∧
    Input.peekRight (A bytes unicode) pos = Input.peekRight (U bytes unicode) pos ∧
    Input.peekLeft (A bytes unicode) pos = Input.peekLeft (U bytes unicode) pos ∧
    Input.peekByteRight (A bytes unicode) pos = Input.peekByteRight (U bytes unicode) pos ∧
    Input.peekByteLeft (A bytes unicode) pos = Input.peekByteLeft (U bytes unicode) pos ∧
    (∀ lit, Input.matchBytes (A bytes unicode) fwd pos lit =
      Input.matchBytes (U bytes unicode) fwd pos lit) ∧
    (∀ rs re, Input.subrangeEq (A bytes unicode) fwd pos rs re =
      Input.subrangeEq (U bytes unicode) fwd pos rs re) ∧
    (∀ amt, Input.tryMoveRight (A bytes unicode) pos amt =
      Input.tryMoveRight (U bytes unicode) pos amt) ∧
    (∀ amt, Input.tryMoveLeft (A bytes unicode) pos amt =
      Input.tryMoveLeft (U bytes unicode) pos amt) ∧
    Input.len (A bytes unicode) = Input.len (U bytes unicode) ∧
    Cursor.next (A bytes unicode) fwd pos = Cursor.next (U bytes unicode) fwd pos ∧
    Cursor.nextByte (A bytes unicode) fwd pos = Cursor.nextByte (U bytes unicode) fwd pos ∧
    (∀ lit, Cursor.tryMatchLit (A bytes unicode) fwd pos lit =
      Cursor.tryMatchLit (U bytes unicode) fwd pos lit) ∧
    (∀ rs re, backref (A bytes unicode) fwd rs re pos = backref (U bytes unicode) fwd rs re pos) ∧
    (∀ rs re, backrefIcase (A bytes unicode) fwd rs re pos =
      backrefIcase (U bytes unicode) fwd rs re pos) ∧
    (∀ m : Scm, m.matches (A bytes unicode) fwd pos = m.matches (U bytes unicode) fwd pos) :=
  ⟨nextRight_agree hascii unicode pos, nextLeft_agree hascii unicode pos,
   peekRight_agree hascii unicode pos, peekLeft_agree hascii unicode pos,
   rfl, rfl, fun _ => rfl, fun _ _ => rfl, fun _ => rfl, fun _ => rfl, rfl,
   cursorNext_agree hascii unicode fwd pos, rfl, fun _ => rfl, fun _ _ => rfl,
   fun rs re => backrefIcase_agree hascii unicode fwd rs re pos,
   fun m => scmMatches_agree hascii unicode m fwd pos⟩

example : ∃ bytes : Array Nat, (∀ b ∈ bytes, b < 128) ∧
    backrefIcase (U bytes false) true 0 1 1 = .ok (some 2) ∧
    (Scm.byteSet [0x62]).matches (A bytes false) true 2 = .ok (some 3) :=
  ⟨hayAab, by decide, by decide, by decide⟩

/-- `next_right_pos`/`next_left_pos` agree for `pos ≤ size`. -/
theorem prims_agree_in_range {bytes : Array Nat} (hascii : ∀ b ∈ bytes, b < 128) (unicode : Bool)
    {pos : Nat} (hpos : pos ≤ bytes.size) :
    Input.nextRightPos (A bytes unicode) pos = Input.nextRightPos (U bytes unicode) pos ∧
    Input.nextLeftPos (A bytes unicode) pos = Input.nextLeftPos (U bytes unicode) pos :=
  ⟨nextRightPos_agree hascii unicode hpos, nextLeftPos_agree hascii unicode hpos⟩

example : (2 : Nat) ≤ hayAab.size ∧ Input.nextRightPos (A hayAab false) 2 = .ok (some 3) := by decide

/-- … and only there: out of range UTF-8 performs an (unchecked) read, ASCII is
`try_move_right/left(pos, 1)`. -/
theorem prims_differ_out_of_range :
    Input.nextRightPos (U #[0x61] false) 2 = .error () ∧
    Input.nextRightPos (A #[0x61] false) 2 = .ok none ∧
    Input.nextLeftPos (U #[0x61] false) 3 = .error () ∧
    Input.nextLeftPos (A #[0x61] false) 3 = .ok (some 2) := by decide

/-! ## 2. `fold` and `ElementType::try_from` -/

/-- `CharProperties::fold`/`fold_equals` agree on elements `< 128` (all that an ASCII haystack
contains). -/
theorem fold_agree {c : Nat} (hc : c < 128) (unicode : Bool) :
    Input.foldElem .utf8 unicode c = Input.foldElem .ascii unicode c ∧
    ∀ (bytes : Array Nat) {c2 : Nat}, c2 < 128 →
      Input.foldEquals (A bytes unicode) c c2 = Input.foldEquals (U bytes unicode) c c2 :=
  ⟨foldElem_agree hc unicode, fun _ _ h2 => foldEquals_agree unicode hc h2⟩

example : Input.foldElem .utf8 true 0x4B = 0x6B ∧ Input.foldElem .ascii false 0x6B = 0x4B := by
  decide +kernel

/-- The restriction is needed: U+017F and U+212A fold into ASCII under `unicode`; U+00E9 upper-cases
to U+00C9 without; `AsciiInput::fold` leaves all of them alone. -/
theorem fold_differ :
    Input.foldElem .utf8 true 0x17F = 0x73 ∧ Input.foldElem .ascii true 0x17F = 0x17F ∧
    Input.foldElem .utf8 true 0x212A = 0x6B ∧ Input.foldElem .ascii true 0x212A = 0x212A ∧
    Input.foldElem .utf8 false 0xE9 = 0xC9 ∧ Input.foldElem .ascii false 0xE9 = 0xE9 ∧
    Input.foldEquals (U #[] true) 0x17F 0x73 = true ∧
    Input.foldEquals (A #[] true) 0x17F 0x73 = false := by decide +kernel

/-- `try_from`: both succeed with `c` for `c < 128`. -/
theorem elementTryFrom_agree {c : Nat} (hc : c < 128) :
    elementTryFrom .ascii c = some c ∧ elementTryFrom .utf8 c = some c :=
  ⟨elementTryFrom_ascii hc _, elementTryFrom_ascii hc _⟩

/-- For `c ≥ 128` they can differ … -/
theorem elementTryFrom_differ :
    elementTryFrom .utf8 0x100 = some 0x100 ∧ elementTryFrom .ascii 0x100 = none := by decide

/-- … but it does not matter on an ASCII haystack: in range a `Char(c)` matcher with `c ≥ 128` neither
matches nor fails to read (either kind), so the `Char(c)` instruction is a plain backtrack whatever
`try_from` returned, and a `Loop1CharBody` over it runs zero iterations (`.charNone` on one side,
`.scm (.char c)` on the other). -/
theorem char_big {bytes : Array Nat} (hascii : ∀ b ∈ bytes, b < 128) (unicode : Bool) {c : Nat}
    (hc : 128 ≤ c) (k : InputKind) (fwd : Bool) {pos : Nat} (hpos : pos ≤ bytes.size) :
    (Scm.char c).matches { kind := k, bytes, unicode } fwd pos = .ok none ∧
    (∀ prog ip st bts, prog.insns[ip]? = some (.char c) →
      Bt.step prog { kind := k, bytes, unicode } ip pos fwd st bts = .back st bts) ∧
    (∀ prog ip min max, prog.insns[ip + 1]? = some (.char c) →
      Bt.withScmLoopImpl prog { kind := k, bytes, unicode } fwd pos min max ip =
        (if min == 0 then .ok (some (pos, pos)) else .ok none)) ∧
    (∀ prog ip limit, prog.insns[ip + 1]? = some (.char c) →
      Bt.withScmComputeMax prog { kind := k, bytes, unicode } fwd pos limit ip = .ok pos) :=
  ⟨scmChar_big hascii unicode hc k hpos,
   fun _ _ st bts hi => step_char_big' hascii unicode hi hc k hpos st bts,
   fun _ _ min max hi => withScmLoopImpl_char_big hascii unicode hi hc k hpos min max,
   fun _ _ limit hi => withScmComputeMax_char_big hascii unicode hi hc k hpos limit⟩

example : (128 : Nat) ≤ 0x100 ∧ (3 : Nat) ≤ hayAab.size ∧ progChar100.insns[0]? = some (.char 0x100) := by
  decide

/-- Out of range the `Char(c)` arm does differ (`c ≥ 256`): a failed read under UTF-8, a plain backtrack
under ASCII. Hence `pos ≤ size` in `bt_step_congr`. -/
theorem char_big_differs_out_of_range :
    (match Bt.step progChar100 (U #[] false) 0 1 true (Bt.freshState progChar100 0) #[.exhausted] with
      | .err _ => true
      | _ => false) = true ∧
    (match Bt.step progChar100 (A #[] false) 0 1 true (Bt.freshState progChar100 0) #[.exhausted] with
      | .back _ _ => true
      | _ => false) = true := by decide

/-! ## 3. The backtracking executor -/

/-- The run invariant: the current position is in range, and so are the positions of the backtrack
records that `try_backtrack` resumes at (`SetPosition.pos`, `EnterNonGreedyLoop.data.entry`) or moves
with `next_left_pos`/`next_right_pos` (`GreedyLoop1Char.max`, `NonGreedyLoop1Char.min`);
`BtsOk size bts := ∀ r ∈ bts, recOk size r = true` (`Proofs/Lemmas/AsciiAgree.lean`).
Nothing is required of `GreedyLoop1Char.min`, `NonGreedyLoop1Char.max`, of `SetLoopData` and
`SetCaptureGroup` records, or of the `State`. -/
def Inv (size pos : Nat) (bts : Array Bt.BtInsn) : Prop := pos ≤ size ∧ BtsOk size bts

instance (size pos : Nat) (bts : Array Bt.BtInsn) : Decidable (Inv size pos bts) := by
  unfold Inv; infer_instance

/-- The record-level predicate, spelled out. -/
theorem recOk_spec (n : Nat) :
    (∀ ip p, recOk n (.setPosition ip p) = true ↔ p ≤ n) ∧
    (∀ ip o d, recOk n (.enterNonGreedyLoop ip o d) = true ↔ d.entry ≤ n) ∧
    (∀ k mn mx, recOk n (.greedyLoop1Char k mn mx) = true ↔ mx ≤ n) ∧
    (∀ k mn mx, recOk n (.nonGreedyLoop1Char k mn mx) = true ↔ mn ≤ n) ∧
    recOk n .exhausted = true ∧
    (∀ id d, recOk n (.setLoopData id d) = true) ∧
    (∀ id d, recOk n (.setCaptureGroup id d) = true) := by
  simp [recOk]

/-- The initial configuration of `try_at_pos` satisfies the invariant. -/
theorem inv_init {size pos : Nat} (hpos : pos ≤ size) : Inv size pos #[.exhausted] :=
  ⟨hpos, btsOk_exhausted size⟩

example : Inv hayAab.size 2 #[.exhausted, .greedyLoop1Char 3 1 2] := by decide
example : ¬ Inv hayAab.size 3 #[.exhausted, .greedyLoop1Char 3 1 5] := by decide

/-- One instruction agrees, for `pos ≤ size`. -/
theorem bt_step_congr {bytes : Array Nat} (hascii : ∀ b ∈ bytes, b < 128) (unicode : Bool)
    (prog : Prog) (ip : Nat) {pos : Nat} (hpos : pos ≤ bytes.size) (fwd : Bool) (st : Bt.State)
    (bts : Array Bt.BtInsn) :
    Bt.step prog (A bytes unicode) ip pos fwd st bts = Bt.step prog (U bytes unicode) ip pos fwd st bts :=
  step_agree hascii unicode prog ip hpos fwd st bts

/-- `try_backtrack` agrees, for a stack whose records are in range. -/
theorem bt_tryBacktrack_congr {bytes : Array Nat} (hascii : ∀ b ∈ bytes, b < 128) (unicode : Bool)
    (prog : Prog) (fwd : Bool) (st : Bt.State) {bts : Array Bt.BtInsn} (hbts : BtsOk bytes.size bts) :
    Bt.tryBacktrack prog (A bytes unicode) fwd st bts = Bt.tryBacktrack prog (U bytes unicode) fwd st bts :=
  tryBacktrack_agree hascii unicode prog fwd st hbts

/-- The invariant is preserved by one instruction (stated for `U`; by `bt_step_congr` the same holds
for `A`) … -/
theorem bt_step_preserves {bytes : Array Nat} (hascii : ∀ b ∈ bytes, b < 128) (unicode : Bool)
    (prog : Prog) (ip : Nat) {pos : Nat} (fwd : Bool) (st : Bt.State) {bts : Array Bt.BtInsn}
    (hinv : Inv bytes.size pos bts) :
    (∀ ip' pos' st' bts', Bt.step prog (U bytes unicode) ip pos fwd st bts = .cont ip' pos' st' bts' →
      Inv bytes.size pos' bts') ∧
    (∀ st' bts', Bt.step prog (U bytes unicode) ip pos fwd st bts = .back st' bts' →
      BtsOk bytes.size bts') ∧
    (∀ e st', Bt.step prog (U bytes unicode) ip pos fwd st bts = .goal e st' → e ≤ bytes.size) := by
  have h := step_ok hascii unicode prog ip hinv.1 fwd st hinv.2
  refine ⟨?_, ?_, ?_⟩
  · intro ip' pos' st' bts' he; rw [he] at h; exact h
  · intro st' bts' he; rw [he] at h; exact h
  · intro e st' he; rw [he] at h; exact h

/-- … and by `try_backtrack`. (The look-around arms of `run` start the nested run from
`#[.exhausted]` at the same position and push only `SetCaptureGroup` records.) -/
theorem bt_tryBacktrack_preserves {bytes : Array Nat} (hascii : ∀ b ∈ bytes, b < 128) (unicode : Bool)
    (prog : Prog) (fwd : Bool) (st : Bt.State) {bts : Array Bt.BtInsn} (hbts : BtsOk bytes.size bts)
    {ip' pos' : Nat} {st' : Bt.State} {bts' : Array Bt.BtInsn}
    (he : Bt.tryBacktrack prog (U bytes unicode) fwd st bts = .resumed ip' pos' st' bts') :
    Inv bytes.size pos' bts' := by
  have h := tryBacktrack_ok hascii unicode prog fwd st hbts
  rw [he] at h; exact h

/-- **The backtracking runs are equal** (outcome, state, `steps`, `peak`, errors, fuel exhaustion)
from every configuration satisfying the invariant, for every tick budget and structural fuel. -/
theorem bt_run_congr {bytes : Array Nat} (hascii : ∀ b ∈ bytes, b < 128) (unicode : Bool)
    (prog : Prog) (limit sf ip : Nat) {pos : Nat} (fwd : Bool) (st : Bt.State)
    {bts : Array Bt.BtInsn} (hinv : Inv bytes.size pos bts) (steps peak : Nat) :
    Bt.run prog (A bytes unicode) limit sf ip pos fwd st bts steps peak =
      Bt.run prog (U bytes unicode) limit sf ip pos fwd st bts steps peak :=
  run_agree hascii unicode prog limit sf ip hinv.1 fwd st hinv.2 steps peak

-- the hypotheses are satisfiable in the middle of a run (a `GreedyLoop1Char` record on the stack) …
example : (∀ b ∈ hayAab, b < 128) ∧ Inv hayAab.size 2 #[.exhausted, .greedyLoop1Char 3 1 2] := by
  decide
-- … and the run from there (ip 3 = `byteseq 62`, at the `b`) succeeds at 3
example :
    (match Bt.run progAPlusB (A hayAab false) 100 100 3 2 true (Bt.freshState progAPlusB 0)
        #[.exhausted, .greedyLoop1Char 3 1 2] 0 0 with
      | .matched e _ steps _ => e == 3 && steps == 2
      | _ => false) = true := by decide

/-- The invariant cannot be dropped: with a `GreedyLoop1Char.max` out of range the UTF-8 run is a
failed read while the ASCII run walks back into the haystack and matches. (Such a configuration is
not reachable from `try_at_pos` at `pos ≤ size`, by `bt_step_preserves`.) -/
theorem bt_run_differs_without_inv :
    (match Bt.run progAPlusB (U hayAab false) 100 100 3 3 true (Bt.freshState progAPlusB 0)
        #[.exhausted, .greedyLoop1Char 3 1 5] 0 0 with
      | .error _ => true
      | _ => false) = true ∧
    (match Bt.run progAPlusB (A hayAab false) 100 100 3 3 true (Bt.freshState progAPlusB 0)
        #[.exhausted, .greedyLoop1Char 3 1 5] 0 0 with
      | .matched e _ _ _ => e == 3
      | _ => false) = true := by decide

/-- A match found from a configuration satisfying the invariant ends in range (both kinds). -/
theorem bt_run_end_le {bytes : Array Nat} (hascii : ∀ b ∈ bytes, b < 128) (unicode : Bool)
    (prog : Prog) (limit sf ip : Nat) {pos : Nat} (fwd : Bool) (st : Bt.State)
    {bts : Array Bt.BtInsn} (hinv : Inv bytes.size pos bts) (steps peak : Nat) (k : InputKind)
    {e : Nat} {st' : Bt.State} {steps' peak' : Nat}
    (he : Bt.run prog { kind := k, bytes, unicode } limit sf ip pos fwd st bts steps peak =
      .matched e st' steps' peak') : e ≤ bytes.size := by
  have h := run_end_le hascii unicode prog limit sf ip hinv.1 fwd st hinv.2 steps peak
  cases k
  · rw [he] at h; exact h
  · rw [run_agree hascii unicode prog limit sf ip hinv.1 fwd st hinv.2 steps peak] at he
    rw [he] at h; exact h

/-- `try_at_pos` on any matcher state, and the three `attempt` wrappers. -/
theorem bt_tryAtPos_congr {bytes : Array Nat} (hascii : ∀ b ∈ bytes, b < 128) (unicode : Bool)
    (prog : Prog) (fuel ip : Nat) {pos : Nat} (hpos : pos ≤ bytes.size) (fwd : Bool) (st : Bt.State) :
    Bt.tryAtPos prog (A bytes unicode) fuel ip pos fwd st =
      Bt.tryAtPos prog (U bytes unicode) fuel ip pos fwd st :=
  bt_run_congr hascii unicode prog fuel fuel ip fwd st (inv_init hpos) 0 0

theorem bt_attempt_congr {bytes : Array Nat} (hascii : ∀ b ∈ bytes, b < 128) (unicode : Bool)
    (prog : Prog) (fuel : Nat) {pos : Nat} (hpos : pos ≤ bytes.size) :
    Bt.attempt prog (A bytes unicode) fuel pos = Bt.attempt prog (U bytes unicode) fuel pos ∧
    ∀ st, Bt.attemptWith prog (A bytes unicode) fuel pos st =
      Bt.attemptWith prog (U bytes unicode) fuel pos st :=
  ⟨bt_tryAtPos_congr hascii unicode prog fuel 0 hpos true _,
   fun st => bt_tryAtPos_congr hascii unicode prog fuel 0 hpos true st⟩

example :
    (match Bt.attempt progAPlusB (A hayAab false) 100 0 with
      | .matched e _ steps peak => e == 3 && steps == 4 && peak == 2
      | _ => false) = true := by decide
-- look-behind, word boundary, `Loop1CharBody` over `anynl`
example :
    (match Bt.attempt progLook (A hayAbC false) 100 1, Bt.attempt progLook (U hayAbC false) 100 3 with
      | .matched e _ _ _, .matched e' _ _ _ => e == 2 && e' == 4
      | _, _ => false) = true := by decide
-- `backref_icase` ("aA")
example :
    (match Bt.attempt progBackrefI (A #[0x61, 0x41] false) 100 0 with
      | .matched e st _ _ => e == 2 && Bt.capsOf st == [some (0, 1)]
      | _ => false) = true := by decide +kernel
-- a non-greedy `EnterLoop` ("ababc"): `EnterNonGreedyLoop` records are exercised
example :
    (match Bt.attempt progLazy (A #[0x61, 0x62, 0x61, 0x62, 0x63] false) 100 0 with
      | .matched e _ _ _ => e == 5
      | _ => false) = true := by decide

/-! ## 4. The PikeVM -/

/-- `try_match_state` agrees on **every** state when the two look-around runners agree pointwise. -/
theorem pk_tryMatchState_congr {bytes : Array Nat} (hascii : ∀ b ∈ bytes, b < 128) (unicode : Bool)
    (prog : Prog) {lookA lookU : Pk.Runner}
    (hlook : ∀ s f steps peak, lookA s f steps peak = lookU s f steps peak) (d : Nat) (s : Pk.State)
    (fwd : Bool) (steps peak : Nat) :
    Pk.tryMatchState prog (A bytes unicode) lookA d s fwd steps peak =
      Pk.tryMatchState prog (U bytes unicode) lookU d s fwd steps peak :=
  pk_tryMatchState_agree hascii unicode prog hlook d s fwd steps peak

/-- **The PikeVM runs are equal** from every stack of states: no invariant is needed (the PikeVM uses
only `cursor::next`, the peeks, `match_bytes` and the back-reference matchers, which agree at every
position; it never calls `next_left_pos`/`next_right_pos` or `try_from`). -/
theorem pk_run_congr {bytes : Array Nat} (hascii : ∀ b ∈ bytes, b < 128) (unicode : Bool)
    (prog : Prog) (limit sf : Nat) (states : Array Pk.State) (fwd : Bool) (steps peak : Nat) :
    Pk.runStates prog (A bytes unicode) limit sf states fwd steps peak =
      Pk.runStates prog (U bytes unicode) limit sf states fwd steps peak :=
  pk_runStates_agree hascii unicode prog limit sf states fwd steps peak

theorem pk_attempt_congr {bytes : Array Nat} (hascii : ∀ b ∈ bytes, b < 128) (unicode : Bool)
    (prog : Prog) (fuel : Nat) :
    (∀ init fwd, Pk.tryAtPos prog (A bytes unicode) fuel init fwd =
      Pk.tryAtPos prog (U bytes unicode) fuel init fwd) ∧
    (∀ pos entry, Pk.attemptAt prog (A bytes unicode) fuel pos entry =
      Pk.attemptAt prog (U bytes unicode) fuel pos entry) ∧
    (∀ pos, Pk.attempt prog (A bytes unicode) fuel pos = Pk.attempt prog (U bytes unicode) fuel pos) :=
  ⟨fun _ _ => pk_run_congr hascii unicode prog fuel _ _ _ 0 0,
   fun _ _ => pk_run_congr hascii unicode prog fuel _ _ _ 0 0,
   fun _ => pk_run_congr hascii unicode prog fuel _ _ _ 0 0⟩

/-- A PikeVM match found from states in range ends in range (used for `findIter`). -/
theorem pk_run_end_le {bytes : Array Nat} (hascii : ∀ b ∈ bytes, b < 128) (unicode : Bool)
    (prog : Prog) (limit sf : Nat) {states : Array Pk.State}
    (hst : ∀ s ∈ states, s.pos ≤ bytes.size) (fwd : Bool) (steps peak : Nat) (k : InputKind)
    {e : Nat} {st' : Pk.State} {steps' peak' : Nat}
    (he : Pk.runStates prog { kind := k, bytes, unicode } limit sf states fwd steps peak =
      .matched e st' steps' peak') : e ≤ bytes.size ∧ st'.pos = e := by
  have h := pk_runStates_ok hascii unicode prog limit sf states fwd steps peak hst
  cases k
  · rw [he] at h; exact h
  · rw [pk_runStates_agree hascii unicode prog limit sf states fwd steps peak] at he
    rw [he] at h; exact h

example :
    (match Pk.attempt progAPlusB (A hayAab false) 100 0 with
      | .matched e _ _ _ => e == 3
      | _ => false) = true := by decide +kernel
example :
    (match Pk.attempt progLook (A hayAbC false) 100 1, Pk.attempt progLook (U hayAbC false) 100 3 with
      | .matched e _ _ _, .matched e' _ _ _ => e == 2 && e' == 4
      | _, _ => false) = true := by decide +kernel
example :
    (match Pk.attempt progBackrefI (A #[0x61, 0x41] false) 100 0 with
      | .matched e st _ _ => e == 2 && Pk.capsOf st == [some (0, 1)]
      | _ => false) = true := by decide +kernel
example : ∀ s ∈ #[Pk.initState progAPlusB 0 0], s.pos ≤ hayAab.size := by decide

/-! ## 5. `backends::find` drained -/

/-- **`findIter` / `findIterStats` agree** for both executors, every start offset and every tick
budget — no further hypothesis. (Inside: `next_right_pos` is only ever called at a position
`≤ size`, because `initial_position` and every `*next_start` are, match ends being in range by
`bt_run_end_le`/`pk_run_end_le`, and `next_match_with_prefix_search` checks `pos > right_end`.) -/
theorem findIter_congr {bytes : Array Nat} (hascii : ∀ b ∈ bytes, b < 128) (unicode : Bool)
    (exec : Exec) (prog : Prog) (start fuel : Nat) :
    findIter exec prog (A bytes unicode) start fuel = findIter exec prog (U bytes unicode) start fuel ∧
    findIterStats exec prog (A bytes unicode) start fuel =
      findIterStats exec prog (U bytes unicode) start fuel :=
  ⟨findIter_agree hascii unicode exec prog start fuel,
   findIterStats_agree hascii unicode exec prog start fuel⟩

example :
    (match findIter .bt progAPlusB (A hayAab false) 0 1000 with
      | .ok [m] => m.range == (0, 3)
      | _ => false) = true := by decide +kernel
example :
    (match findIter .pk progLook (A hayAbC false) 0 1000, findIter .bt progLook (U hayAbC false) 0 1000 with
      | .ok [m1, m2], .ok [m1', m2'] =>
        m1.range == (1, 2) && m2.range == (3, 4) && m1' == m1 && m2' == m2
      | _, _ => false) = true := by decide +kernel
-- fuel exhaustion is part of the statement
example :
    (match findIter .bt progAPlusB (A hayAab false) 0 3 with
      | .error e => e == "fuel"
      | _ => false) = true := by decide +kernel

end Regress.C13

#print axioms Regress.C13.prims_agree
#print axioms Regress.C13.prims_agree_in_range
#print axioms Regress.C13.prims_differ_out_of_range
#print axioms Regress.C13.fold_agree
#print axioms Regress.C13.fold_differ
#print axioms Regress.C13.elementTryFrom_agree
#print axioms Regress.C13.elementTryFrom_differ
#print axioms Regress.C13.char_big
#print axioms Regress.C13.char_big_differs_out_of_range
#print axioms Regress.C13.recOk_spec
#print axioms Regress.C13.inv_init
#print axioms Regress.C13.bt_step_congr
#print axioms Regress.C13.bt_tryBacktrack_congr
#print axioms Regress.C13.bt_step_preserves
#print axioms Regress.C13.bt_tryBacktrack_preserves
#print axioms Regress.C13.bt_run_congr
#print axioms Regress.C13.bt_run_differs_without_inv
#print axioms Regress.C13.bt_run_end_le
#print axioms Regress.C13.bt_tryAtPos_congr
#print axioms Regress.C13.bt_attempt_congr
#print axioms Regress.C13.pk_tryMatchState_congr
#print axioms Regress.C13.pk_run_congr
#print axioms Regress.C13.pk_attempt_congr
#print axioms Regress.C13.pk_run_end_le
#print axioms Regress.C13.findIter_congr
