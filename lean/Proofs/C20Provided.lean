import Proofs.C20
import Proofs.Lemmas.C20Provided
/-!
# C20-provided — the provided methods of `Searcher` / `ReverseSearcher` on `RegexSearcher`

`RegexSearcher` (`src/api.rs`, `pattern_impl`) overrides none of `next_match`, `next_reject`,
`next_match_back`, `next_reject_back`; the provided loops of `core::str::pattern` over `next()` /
`next_back()` are what runs. Model: `RegressModel/Api/SearcherProvided.lean` (`callOps`: any sequence of
the six methods on one searcher). Specification: `Proofs/Lemmas/C20ProvidedSpec.lean` (`walkOps`: the
two-ended walk, indices `i ≤ j` into the forward step list). Lemmas: `Proofs/Lemmas/C20Provided.lean`.

Result, for every context satisfying `CtxOK` (`Proofs/Lemmas/SearcherSpec.lean`) and EVERY sequence of
calls on a fresh searcher:
* `callOps_eq_walk`            — the calls return exactly what the two-ended walk of the forward step
                                 list returns;
* `provided_no_error`          — no call panics or fails (one result per call);
* `provided_never_out_of_fuel` — in particular the fuel of the loops (a model artefact) always suffices;
* `next_match_first`           — `next_match` on a fresh searcher is `regex.find(haystack)`, the first
                                 match of `find_iter`;
* `next_match_back_first`      — `next_match_back` on a fresh searcher is the last match of `find_iter`;
* `next_match_after_back`      — after `k` calls of `next_back`, `next_match` returns the first `Match`
                                 step among the steps not handed out yet (`L[0 .. |L| - k)`): not a step
                                 already handed out from the back, and `None` if there is none left.
-/
namespace Regress.C20
open Regress.Api

/-- Equality of `Except` values is decidable (for the `decide` fixtures below). -/
local instance instDecidableEqExcept {ε α : Type} [DecidableEq ε] [DecidableEq α] :
    DecidableEq (Except ε α)
  | .ok a, .ok b => if h : a = b then isTrue (h ▸ rfl) else isFalse (fun h' => h (Except.ok.inj h'))
  | .error a, .error b =>
    if h : a = b then isTrue (h ▸ rfl) else isFalse (fun h' => h (Except.error.inj h'))
  | .ok _, .error _ => isFalse (fun h => by cases h)
  | .error _, .ok _ => isFalse (fun h => by cases h)

/-- **callOps_eq_walk.** Any sequence of `next` / `next_back` / `next_match` / `next_reject` /
`next_match_back` / `next_reject_back` calls on one fresh searcher returns, call by call, what the
two-ended walk `walkOps` of the forward step list `L` returns (and no call panics or runs out of
fuel). -/
theorem callOps_eq_walk (ctx : SearchCtx) (H : CtxOK ctx) (L : List SearchStep)
    (hL : forwardSteps ctx = some L) (ops : List SOp) :
    callOps ctx ops RegexSearcher.new = .ok (walkOps L ops) := by
  obtain ⟨⟨s', hrun⟩, hlen⟩ := run_of_forwardSteps H hL
  rw [← walkOps_deque]
  exact callOps_deque ops _ L (Sim.init hrun) hlen

/-- **provided_no_error.** No call of any sequence panics (the `find_from` assertion, the slice, the
`Vec` index) or fails otherwise; there is one result per call. -/
theorem provided_no_error (ctx : SearchCtx) (H : CtxOK ctx) (ops : List SOp) :
    ∃ rs, callOps ctx ops RegexSearcher.new = .ok rs ∧ rs.length = ops.length := by
  obtain ⟨L, hL, _⟩ := forward_tiles ctx H
  exact ⟨walkOps L ops, callOps_eq_walk ctx H L hL ops, walkOpsFrom_length L ops _⟩

/-- **provided_never_out_of_fuel.** The fuel `2·len + 2` given to the loops of the provided methods
(and to the loop of `next_back`) is never exhausted, whatever has been called before. -/
theorem provided_never_out_of_fuel (ctx : SearchCtx) (H : CtxOK ctx) (ops : List SOp) :
    callOps ctx ops RegexSearcher.new ≠ .error .outOfFuel := by
  obtain ⟨rs, h, _⟩ := provided_no_error ctx H ops
  rw [h]; intro h'; cases h'

/-- **next_match_first.** On a fresh searcher `next_match()` returns `find_from(h, 0).next()`, i.e.
`regex.find(h)`: the first match of `find_iter` (`none` if there is none). -/
theorem next_match_first (ctx : SearchCtx) (H : CtxOK ctx) :
    callOps ctx [.nextMatch] RegexSearcher.new = .ok [.range (ctx.findFrom 0)] ∧
      ∀ ms, IsIter ctx 0 ms → callOps ctx [.nextMatch] RegexSearcher.new = .ok [.range ms.head?] := by
  obtain ⟨L, hL, hfm⟩ := first_match_step ctx H
  have h1 : callOps ctx [.nextMatch] RegexSearcher.new = .ok [.range (ctx.findFrom 0)] := by
    rw [callOps_eq_walk ctx H L hL]
    have := scanFwd_firstMatch L (Nat.le_refl L.length)
    rw [List.take_length, hfm] at this
    simp [walkOps, walkOpsFrom, walkOp, this]
  refine ⟨h1, fun ms hms => ?_⟩
  rw [h1]
  cases ms with
  | nil => simp only [IsIter, IsIterO] at hms; simp [hms]
  | cons m ms => simp only [IsIter, IsIterO] at hms; simp [hms.1]

/-- **next_match_back_first.** On a fresh searcher `next_match_back()` returns the last match of
`find_iter` (`none` if there is none). -/
theorem next_match_back_first (ctx : SearchCtx) (H : CtxOK ctx) (ms : List (Nat × Nat))
    (hms : IsIter ctx 0 ms) :
    callOps ctx [.nextMatchBack] RegexSearcher.new = .ok [.range ms.getLast?] := by
  obtain ⟨L, hL, _, _, _, _, _, huniq⟩ := forward_tiles ctx H
  rw [callOps_eq_walk ctx H L hL]
  obtain ⟨h1, _⟩ := scanBack_slice L isMatch 0 L.length L.length rfl (Nat.zero_le _) (Nat.le_refl _)
  have := congrArg Prod.fst h1
  rw [slice_full, scanD_firstMatch, firstMatch_eq_head, matchesOf_reverse, huniq ms hms,
    List.head?_reverse] at this
  simp only at this
  simp [walkOps, walkOpsFrom, walkOp, ← this]

/-- **next_match_after_back.** After `k` calls of `next_back()` (which return the last `k` forward
steps in reverse order, then `Done`s), `next_match()` returns the first `Match` step among the forward
steps not handed out yet, `L[0 .. |L| - k)` — never one that `next_back` has already returned, and
`None` when no `Match` step is left. -/
theorem next_match_after_back (ctx : SearchCtx) (H : CtxOK ctx) (L : List SearchStep)
    (hL : forwardSteps ctx = some L) (k : Nat) :
    callOps ctx (List.replicate k .nextBack ++ [.nextMatch]) RegexSearcher.new =
      .ok ((List.range k).map (fun t => SOpResult.step (L.reverse[t]?.getD .done)) ++
        [.range (firstMatch (L.take (L.length - k)))]) := by
  rw [callOps_eq_walk ctx H L hL]
  obtain ⟨h1, h2⟩ := walk_backs L k L.length (Nat.le_refl _)
  rw [walkOps, walkOpsFrom_append, h1, h2]
  congr 2
  · apply List.map_congr_left
    intro t _
    by_cases ht : t < L.length
    · have : L.length - 1 - t < L.length := by omega
      simp [ht, List.getD_eq_getElem?_getD, this]
    · simp [ht]
  · have := scanFwd_firstMatch L (j := L.length - k) (by omega)
    simp [walkOpsFrom, walkOp, this]

/-! ## Non-vacuity: pattern `\d*`, haystack `"ab12cd"` (`digitsCtx` of `Proofs/C20.lean`) -/

/-- `next_back, next_match, next_reject, next_match_back, next_reject_back, next, next_match,
next_back, next_match_back, next_reject, next, next_back, next_match`. -/
def digitsProvidedOps : List SOp :=
  [.nextBack, .nextMatch, .nextReject, .nextMatchBack, .nextRejectBack, .next, .nextMatch, .nextBack,
   .nextMatchBack, .nextReject, .next, .nextBack, .nextMatch]

/-- What these calls return. The forward steps are `digitsExpected` =
`M0-0 R0-1 M1-1 R1-2 M2-4 M4-4 R4-5 M5-5 R5-6 M6-6`. -/
def digitsProvidedExpected : List SOpResult :=
  [.step (.match 6 6), .range (some (0, 0)), .range (some (0, 1)), .range (some (5, 5)),
   .range (some (4, 5)), .step (.match 1 1), .range (some (2, 4)), .step (.match 4 4),
   .range none, .range none, .step .done, .step .done, .range none]

/-- The model computes them … -/
example : callOps digitsCtx digitsProvidedOps RegexSearcher.new = .ok digitsProvidedExpected := by
  decide
/-- … and so does the walk of the forward steps … -/
example : walkOps digitsExpected digitsProvidedOps = digitsProvidedExpected := by decide
/-- … as `callOps_eq_walk` says. -/
example : callOps digitsCtx digitsProvidedOps RegexSearcher.new =
    .ok (walkOps digitsExpected digitsProvidedOps) :=
  callOps_eq_walk digitsCtx digitsCtx_ok digitsExpected digits_steps digitsProvidedOps

/-- `next_match_first`, `next_match_back_first` instantiated. -/
example : callOps digitsCtx [.nextMatch] RegexSearcher.new = .ok [.range (some (0, 0))] :=
  (next_match_first digitsCtx digitsCtx_ok).2 digitsMatches digits_iter
example : callOps digitsCtx [.nextMatchBack] RegexSearcher.new = .ok [.range (some (6, 6))] :=
  next_match_back_first digitsCtx digitsCtx_ok digitsMatches digits_iter

/-- `next_match_after_back` instantiated (`k = 3`), and evaluated. -/
example : callOps digitsCtx [.nextBack, .nextBack, .nextBack, .nextMatch] RegexSearcher.new =
    .ok [.step (.match 6 6), .step (.reject 5 6), .step (.match 5 5), .range (some (0, 0))] :=
  next_match_after_back digitsCtx digitsCtx_ok digitsExpected digits_steps 3
example : callOps digitsCtx [.nextBack, .nextBack, .nextBack, .nextMatch] RegexSearcher.new =
    .ok [.step (.match 6 6), .step (.reject 5 6), .step (.match 5 5), .range (some (0, 0))] := by
  decide

/-! ### `\d+` on `"ab12cd3"`: a match handed out from the back is not found again from the front -/

def plusCtx : SearchCtx := SearchCtx.ofMatches 7 [0, 1, 2, 3, 4, 5, 6, 7] [(2, 4), (6, 7)]

theorem plusCtx_ok : CtxOK plusCtx := ctxOK_of_check (by decide)

theorem plus_steps :
    forwardSteps plusCtx = some [.reject 0 2, .match 2 4, .reject 4 6, .match 6 7] := by decide

/-- `next_back` hands out `Match(6, 7)`; the following `next_match` calls return `Some((2, 4))` and
then `None` — not `Some((6, 7))` again; `next_reject_back` then finds nothing: `Reject(4, 6)` has been
passed over by the second `next_match`. -/
example : callOps plusCtx [.nextBack, .nextMatch, .nextMatch, .nextRejectBack, .next] RegexSearcher.new =
    .ok [.step (.match 6 7), .range (some (2, 4)), .range none, .range none, .step .done] := by
  decide
example : callOps plusCtx [.nextBack, .nextMatch, .nextMatch, .nextRejectBack, .next] RegexSearcher.new =
    .ok (walkOps [.reject 0 2, .match 2 4, .reject 4 6, .match 6 7]
      [.nextBack, .nextMatch, .nextMatch, .nextRejectBack, .next]) :=
  callOps_eq_walk plusCtx plusCtx_ok _ plus_steps _

/-! ### `\d+` on `"a1b22c333"`: `next_back()` then `next_match()` (the scenario of the seeded defect
`C20-next-match-override-ignores-back-buffer`, where an override of `next_match` returned `None`) -/

def runsCtx : SearchCtx :=
  SearchCtx.ofMatches 9 [0, 1, 2, 3, 4, 5, 6, 7, 8, 9] [(1, 2), (3, 5), (6, 9)]

theorem runsCtx_ok : CtxOK runsCtx := ctxOK_of_check (by decide)

theorem runs_steps : forwardSteps runsCtx =
    some [.reject 0 1, .match 1 2, .reject 2 3, .match 3 5, .reject 5 6, .match 6 9] := by decide

example : callOps runsCtx [.nextBack, .nextMatch] RegexSearcher.new =
    .ok [.step (.match 6 9), .range (some (1, 2))] :=
  next_match_after_back runsCtx runsCtx_ok _ runs_steps 1

/-- Matches handed out by `next_match` and `next_match_back` alternately: each exactly once. -/
example : callOps runsCtx [.nextMatchBack, .nextMatch, .nextMatchBack, .nextMatch, .nextMatchBack]
      RegexSearcher.new =
    .ok [.range (some (6, 9)), .range (some (1, 2)), .range (some (3, 5)), .range none, .range none] := by
  decide

/-- The driver's line format. -/
example : (SOp.ofString "bmrMRn") =
    some [.nextBack, .nextMatch, .nextReject, .nextMatchBack, .nextRejectBack, .next] := by decide

#print axioms callOps_eq_walk
#print axioms provided_no_error
#print axioms provided_never_out_of_fuel
#print axioms next_match_first
#print axioms next_match_back_first
#print axioms next_match_after_back
#print axioms plusCtx_ok
#print axioms plus_steps

end Regress.C20
