import Proofs.Lemmas.Replace
import Proofs.C09
/-!
# C17 — `Regex::{expand_replacement, replace, replace_all, replace_with, replace_all_with}`

Model: `RegressModel/Api/Replace.lean` (`src/api.rs` lines 542–748).

Conventions: `text` = haystack bytes, a template `tpl` = list of chars, the output = bytes,
`slice text s e = (text.take e).drop s`, `ms` = the drained `find_iter(text)`.

Layout of this file:
1. **Specification** (independent of the model): the template grammar `Tokenizes`, the meaning
   `render` of a token, a computable tokenizer `tokenize`, the hypothesis `Sorted` on the match
   list and the closed-form splice `interleave (gaps …) … ++ tailGap …`.
2. **Bridge lemmas** (helpers that mention the specification; model-only helpers live in
   `Proofs/Lemmas/Replace.lean`).
3. **Property theorems**, each followed by a non-vacuity `example`.
-/
namespace Regress.C17
open Regress.Api

/-! ## 1. Specification -/

/-- A token of a replacement template. -/
inductive Tok
  | lit (c : Nat)                      -- an ordinary char
  | dollar                             -- a literal `$` (from `$$`, or a `$` that starts nothing)
  | group (n : Nat)                    -- `$123`
  | named (name : List Nat)            -- `${name}`
  | rawUnterminated (name : List Nat)  -- `${name` running to the end of the template
deriving DecidableEq, Repr

/-- Decimal value of a string of ASCII digits. -/
def decVal (ds : List Nat) : Nat := ds.foldl (fun a d => a * 10 + (d - 0x30)) 0

/-- The grammar of replacement templates. `0x24 = '$'`, `0x7B = '{'`, `0x7D = '}'`,
`65535 = MAX_CAPTURE_GROUPS`. -/
inductive Tokenizes : List Nat → List Tok → Prop
  | nil : Tokenizes [] []
  /-- an ordinary char -/
  | lit {c : Nat} {rest : List Nat} {ts : List Tok} :
      c ≠ 0x24 → Tokenizes rest ts → Tokenizes (c :: rest) (.lit c :: ts)
  /-- `$$` -/
  | dollarDollar {rest : List Nat} {ts : List Tok} :
      Tokenizes rest ts → Tokenizes (0x24 :: 0x24 :: rest) (.dollar :: ts)
  /-- `$digits`: `ds` is the maximal digit run, except that it is cut right after the first digit
  that makes the value exceed 65535 (the digits after the cut stay in `rest` and become text). -/
  | digits {ds rest : List Nat} {ts : List Tok} :
      ds ≠ [] → (∀ d ∈ ds, isAsciiDigit d = true) →
      decVal ds.dropLast ≤ 65535 →
      (decVal ds > 65535 ∨ ∀ c, rest.head? = some c → isAsciiDigit c = false) →
      Tokenizes rest ts → Tokenizes (0x24 :: (ds ++ rest)) (.group (decVal ds) :: ts)
  /-- `${name}` -/
  | named {name rest : List Nat} {ts : List Tok} :
      (∀ c ∈ name, c ≠ 0x7D) → Tokenizes rest ts →
      Tokenizes (0x24 :: 0x7B :: (name ++ 0x7D :: rest)) (.named name :: ts)
  /-- `${name` with no closing brace: everything up to the end of the template -/
  | unterminated {name : List Nat} :
      (∀ c ∈ name, c ≠ 0x7D) → Tokenizes (0x24 :: 0x7B :: name) [.rawUnterminated name]
  /-- a `$` at the end, or followed by a char that is not `$`, not a digit, not `{` -/
  | loneDollar {rest : List Nat} {ts : List Tok} :
      (∀ c, rest.head? = some c → c ≠ 0x24 ∧ isAsciiDigit c = false ∧ c ≠ 0x7B) →
      Tokenizes rest ts → Tokenizes (0x24 :: rest) (.dollar :: ts)

/-- The bytes a token contributes to the output, for the match `m` in `text`. -/
def render (m : MatchR) (text : List Nat) : Tok → List Nat
  | .lit c => Utf8.encode c
  | .dollar => [0x24]
  | .group n => match m.group n with
    | some r => slice text r.1 r.2
    | none => []
  | .named nm => match m.namedGroup nm with
    | some r => slice text r.1 r.2
    | none => []
  | .rawUnterminated nm => [0x24, 0x7B] ++ Utf8.encodeAll nm

/-- Split off the digit run of the `$digits` rule: `acc` is the value read so far. -/
def splitDigits : Nat → List Nat → List Nat × List Nat
  | _, [] => ([], [])
  | acc, d :: rest =>
    if isAsciiDigit d then
      if acc * 10 + (d - 0x30) > 65535 then ([d], rest)
      else ((d :: (splitDigits (acc * 10 + (d - 0x30)) rest).1),
            (splitDigits (acc * 10 + (d - 0x30)) rest).2)
    else ([], d :: rest)

/-- Split at the first `}`: `(name, some rest)` or `(everything, none)`. -/
def splitBrace : List Nat → List Nat × Option (List Nat)
  | [] => ([], none)
  | c :: rest =>
    if c = 0x7D then ([], some rest)
    else (c :: (splitBrace rest).1, (splitBrace rest).2)

/-- Computable tokenizer (fuel = number of tokens still allowed). -/
def tokenizeFuel : Nat → List Nat → List Tok
  | 0, _ => []
  | _ + 1, [] => []
  | _ + 1, [c] => if c = 0x24 then [.dollar] else [.lit c]
  | fuel + 1, c :: p :: rest =>
    if c = 0x24 then
      if p = 0x24 then .dollar :: tokenizeFuel fuel rest
      else if isAsciiDigit p then
        .group (decVal (splitDigits 0 (p :: rest)).1) ::
          tokenizeFuel fuel (splitDigits 0 (p :: rest)).2
      else if p = 0x7B then
        match (splitBrace rest).2 with
        | some r => .named (splitBrace rest).1 :: tokenizeFuel fuel r
        | none => [.rawUnterminated (splitBrace rest).1]
      else .dollar :: tokenizeFuel fuel (p :: rest)
    else .lit c :: tokenizeFuel fuel (p :: rest)

/-- Computable tokenizer. -/
def tokenize (tpl : List Nat) : List Tok := tokenizeFuel (tpl.length + 1) tpl

/-- The match list is in range, increasing and disjoint, starting from `cursor`:
every match has `cursor ≤ start ≤ end ≤ len`, and the next cursor is its `end`. -/
def Sorted (len : Nat) : Nat → List MatchR → Prop
  | _, [] => True
  | cursor, m :: ms =>
    cursor ≤ m.range.1 ∧ m.range.1 ≤ m.range.2 ∧ m.range.2 ≤ len ∧ Sorted len m.range.2 ms

instance Sorted.decide (len : Nat) : ∀ (cursor : Nat) (ms : List MatchR),
    Decidable (Sorted len cursor ms)
  | _, [] => isTrue trivial
  | cursor, m :: ms =>
    haveI := Sorted.decide len m.range.2 ms
    inferInstanceAs (Decidable
      (cursor ≤ m.range.1 ∧ m.range.1 ≤ m.range.2 ∧ m.range.2 ≤ len ∧ Sorted len m.range.2 ms))

/-- The unmatched piece of text in front of each match: `gaps[0] = text[cursor .. start₀]`,
`gaps[i+1] = text[endᵢ .. startᵢ₊₁]` (see `gaps_zero`, `gaps_succ`). -/
def gaps (text : List Nat) (cursor : Nat) (ms : List MatchR) : List (List Nat) :=
  List.zipWith (fun c m => slice text c m.range.1) (cursor :: ms.map (·.range.2)) ms

/-- End of the last match (or `cursor` when there is none). -/
def lastEnd (cursor : Nat) (ms : List MatchR) : Nat :=
  match ms.getLast? with
  | some m => m.range.2
  | none => cursor

/-- The unmatched text after the last match. -/
def tailGap (text : List Nat) (cursor : Nat) (ms : List MatchR) : List Nat :=
  slice text (lastEnd cursor ms) text.length

/-- `g₀ ++ x₀ ++ g₁ ++ x₁ ++ …`. -/
def interleave (gs xs : List (List Nat)) : List Nat :=
  (List.zipWith (· ++ ·) gs xs).flatten

/-- The text of a match. -/
def matched (text : List Nat) (m : MatchR) : List Nat := slice text m.range.1 m.range.2

/-! ## 2. Bridge lemmas -/

theorem decVal_eq (ds : List Nat) : decVal ds = digitsVal 0 ds := rfl

theorem digit_ne_dollar {d : Nat} (h : isAsciiDigit d = true) : d ≠ 0x24 := by
  simp [isAsciiDigit] at h; omega

theorem digit_ne_brace {d : Nat} (h : isAsciiDigit d = true) : d ≠ 0x7B := by
  simp [isAsciiDigit] at h; omega

theorem splitDigits_nondigit (acc : Nat) (rest : List Nat)
    (h : ∀ c, rest.head? = some c → isAsciiDigit c = false) :
    splitDigits acc rest = ([], rest) := by
  cases rest with
  | nil => rfl
  | cons c r => simp [splitDigits, h c (by simp)]

/-- Under the side conditions of the `$digits` rule the splitter returns exactly `(ds, rest)`. -/
theorem splitDigits_eq : ∀ (ds : List Nat) (acc : Nat) (rest : List Nat), ds ≠ [] →
    (∀ d ∈ ds, isAsciiDigit d = true) → digitsVal acc ds.dropLast ≤ 65535 →
    (digitsVal acc ds > 65535 ∨ ∀ c, rest.head? = some c → isAsciiDigit c = false) →
    splitDigits acc (ds ++ rest) = (ds, rest) := by
  intro ds
  induction ds with
  | nil => intro _ _ h; exact absurd rfl h
  | cons d ds ih =>
    intro acc rest _ hdig hdrop hstop
    have hd : isAsciiDigit d = true := hdig d (by simp)
    cases ds with
    | nil =>
      simp only [List.cons_append, List.nil_append, splitDigits, hd, if_true]
      split
      · rfl
      · rename_i hle
        rcases hstop with h | h
        · simp at h; omega
        · rw [splitDigits_nondigit _ _ h]
    | cons d' ds' =>
      have hdrop' : digitsVal (acc * 10 + (d - 0x30)) (d' :: ds').dropLast ≤ 65535 := by
        simpa [List.dropLast] using hdrop
      have hacc : acc * 10 + (d - 0x30) ≤ 65535 :=
        Nat.le_trans (le_digitsVal _ _) hdrop'
      have := ih (acc * 10 + (d - 0x30)) rest (by simp)
        (fun x hx => hdig x (by simp at hx ⊢; right; exact hx)) hdrop'
        (by simpa using hstop)
      rw [List.cons_append, splitDigits]
      simp only [hd, if_true]
      rw [if_neg (by omega), this]

/-- What the splitter returns always satisfies the side conditions of the `$digits` rule. -/
theorem splitDigits_spec : ∀ (l : List Nat) (acc : Nat), acc ≤ 65535 →
    l = (splitDigits acc l).1 ++ (splitDigits acc l).2 ∧
    (∀ d ∈ (splitDigits acc l).1, isAsciiDigit d = true) ∧
    digitsVal acc (splitDigits acc l).1.dropLast ≤ 65535 ∧
    (digitsVal acc (splitDigits acc l).1 > 65535 ∨
      ∀ c, (splitDigits acc l).2.head? = some c → isAsciiDigit c = false) := by
  intro l
  induction l with
  | nil => intro acc h; simp [splitDigits, h]
  | cons d rest ih =>
    intro acc hacc
    by_cases hd : isAsciiDigit d = true
    · by_cases hov : acc * 10 + (d - 0x30) > 65535
      · simp [splitDigits, hd, hov, hacc]
      · obtain ⟨h1, h2, h3, h4⟩ := ih (acc * 10 + (d - 0x30)) (by omega)
        simp only [splitDigits, hd, hov, if_true, if_false]
        refine ⟨by simpa using h1, ?_, ?_, ?_⟩
        · intro x hx
          simp only [List.mem_cons] at hx
          rcases hx with rfl | hx
          · exact hd
          · exact h2 x hx
        · cases hs : (splitDigits (acc * 10 + (d - 0x30)) rest).1 with
          | nil => simpa using hacc
          | cons a as => rw [hs] at h3; simpa [List.dropLast] using h3
        · simpa using h4
    · have hd' : isAsciiDigit d = false := by simpa using hd
      simp [splitDigits, hd', hacc]

theorem splitDigits_ne_nil (acc d : Nat) (l : List Nat) (hd : isAsciiDigit d = true) :
    (splitDigits acc (d :: l)).1 ≠ [] := by
  simp only [splitDigits, hd, if_true]
  split <;> simp

/-- The model's `$digits` loop computes the value of the digit run returned by the splitter. -/
theorem parseGroupNum_eq (acc : Nat) (l : List Nat) :
    parseGroupNum acc l = (digitsVal acc (splitDigits acc l).1, (splitDigits acc l).2) := by
  induction l generalizing acc with
  | nil => rfl
  | cons d rest ih =>
    unfold parseGroupNum splitDigits
    by_cases hd : isAsciiDigit d = true
    · by_cases hov : acc * 10 + (d - 0x30) > 65535
      · simp [hd, hov, MAX_CAPTURE_GROUPS]
      · simp [hd, hov, MAX_CAPTURE_GROUPS, ih]
    · simp [hd]

theorem splitBrace_eq_some (name rest : List Nat) (h : ∀ c ∈ name, c ≠ 0x7D) :
    splitBrace (name ++ 0x7D :: rest) = (name, some rest) := by
  induction name with
  | nil => simp [splitBrace]
  | cons c cs ih =>
    have hc : c ≠ 0x7D := h c (by simp)
    have := ih (fun x hx => h x (by simp [hx]))
    simp [splitBrace, hc, this]

theorem splitBrace_eq_none (name : List Nat) (h : ∀ c ∈ name, c ≠ 0x7D) :
    splitBrace name = (name, none) := by
  induction name with
  | nil => simp [splitBrace]
  | cons c cs ih =>
    have hc : c ≠ 0x7D := h c (by simp)
    have := ih (fun x hx => h x (by simp [hx]))
    simp [splitBrace, hc, this]

theorem splitBrace_spec (l : List Nat) :
    (∀ c ∈ (splitBrace l).1, c ≠ 0x7D) ∧
    (∀ r, (splitBrace l).2 = some r → l = (splitBrace l).1 ++ 0x7D :: r) ∧
    ((splitBrace l).2 = none → l = (splitBrace l).1) := by
  induction l with
  | nil => simp [splitBrace]
  | cons c cs ih =>
    obtain ⟨h1, h2, h3⟩ := ih
    by_cases hc : c = 0x7D
    · simp [splitBrace, hc]
    · simp only [splitBrace, hc, if_false]
      refine ⟨?_, ?_, ?_⟩
      · intro x hx
        simp only [List.mem_cons] at hx
        rcases hx with rfl | hx
        · exact hc
        · exact h1 x hx
      · intro r hr; rw [List.cons_append, ← h2 r hr]
      · intro hn; rw [← h3 hn]

/-- The model's `${name}` loop in terms of the splitter. -/
theorem readName_eq (nm l : List Nat) :
    readName nm l =
      (nm ++ (splitBrace l).1, (splitBrace l).2.isSome, (splitBrace l).2.getD []) := by
  induction l generalizing nm with
  | nil => simp [readName, splitBrace]
  | cons c cs ih =>
    unfold readName splitBrace
    by_cases hc : c = 0x7D
    · simp [hc]
    · simp [hc, ih]

/-- The model, at any fuel, is the rendering of the fuel-tokenizer's output. -/
theorem expandFuel_eq_tokenizeFuel (m : MatchR) (text : List Nat) :
    ∀ (fuel : Nat) (tpl : List Nat),
      expandFuel m text fuel tpl = (tokenizeFuel fuel tpl).flatMap (render m text) := by
  intro fuel
  induction fuel with
  | zero => intro tpl; simp [expandFuel, tokenizeFuel]
  | succ f ih =>
    intro tpl
    match tpl with
    | [] => simp [expandFuel, tokenizeFuel]
    | [c] =>
      by_cases hc : c = 0x24
      · simp [expandFuel, tokenizeFuel, hc, render]
      · simp [expandFuel, tokenizeFuel, hc, render]
    | c :: p :: rest =>
      simp only [expandFuel, tokenizeFuel]
      by_cases hc : c = 0x24
      · simp only [hc, beq_self_eq_true, if_true]
        by_cases hp : p = 0x24
        · simp [hp, ih, render]
        · simp only [hp, beq_iff_eq, if_false]
          by_cases hd : isAsciiDigit p = true
          · simp only [hd, if_true, parseGroupNum_eq, ← decVal_eq]
            simp [ih, render]
            rfl
          · simp only [hd, Bool.false_eq_true, if_false]
            by_cases hb : p = 0x7B
            · simp only [hb, if_true, readName_eq, List.nil_append]
              cases hs : (splitBrace rest).2 with
              | none => simp [render]
              | some r => simp [ih, render]; rfl
            · simp [hb, ih, render]
      · simp [hc, ih, render]

@[simp] theorem tokenizeFuel_nil (fuel : Nat) : tokenizeFuel fuel [] = [] := by
  cases fuel <;> rfl

/-- Determinism: a derivation forces the tokenizer's output. -/
theorem tokenizeFuel_complete {tpl : List Nat} {ts : List Tok} (h : Tokenizes tpl ts) :
    ∀ fuel, tpl.length < fuel → tokenizeFuel fuel tpl = ts := by
  induction h with
  | nil => intro fuel _; cases fuel <;> rfl
  | @lit c rest ts hc _ ih =>
    intro fuel hf
    match fuel, hf with
    | f + 1, hf =>
      have := ih f (by simp at hf; omega)
      cases rest with
      | nil => simp at this; simp [tokenizeFuel, hc, ← this]
      | cons p r => simp [tokenizeFuel, hc, this]
  | @dollarDollar rest ts _ ih =>
    intro fuel hf
    match fuel, hf with
    | f + 1, hf =>
      have := ih f (by simp at hf; omega)
      simp [tokenizeFuel, this]
  | @digits ds rest ts hne hdig hdrop hstop _ ih =>
    intro fuel hf
    match fuel, hf with
    | f + 1, hf =>
      have := ih f (by simp at hf; omega)
      have hsplit := splitDigits_eq ds 0 rest hne hdig hdrop hstop
      cases ds with
      | nil => exact absurd rfl hne
      | cons d ds' =>
        have hd : isAsciiDigit d = true := hdig d (by simp)
        have h24 := digit_ne_dollar hd
        rw [List.cons_append] at hsplit ⊢
        simp only [tokenizeFuel, if_true, h24, if_false, hd, hsplit, this]
  | @named name rest ts hnm _ ih =>
    intro fuel hf
    match fuel, hf with
    | f + 1, hf =>
      have := ih f (by simp at hf; omega)
      simp [tokenizeFuel, isAsciiDigit, splitBrace_eq_some name rest hnm, this]
  | @unterminated name hnm =>
    intro fuel hf
    match fuel, hf with
    | f + 1, hf =>
      simp [tokenizeFuel, isAsciiDigit, splitBrace_eq_none name hnm]
  | @loneDollar rest ts hrest _ ih =>
    intro fuel hf
    match fuel, hf with
    | f + 1, hf =>
      have := ih f (by simp at hf; omega)
      cases rest with
      | nil => simp at this; simp [tokenizeFuel, ← this]
      | cons p r =>
        obtain ⟨h1, h2, h3⟩ := hrest p (by simp)
        simp [tokenizeFuel, h1, h2, h3, this]

/-- Soundness of the fuel tokenizer. -/
theorem tokenizeFuel_sound : ∀ (fuel : Nat) (tpl : List Nat), tpl.length < fuel →
    Tokenizes tpl (tokenizeFuel fuel tpl) := by
  intro fuel
  induction fuel with
  | zero => intro tpl h; omega
  | succ f ih =>
    intro tpl hf
    match tpl, hf with
    | [], _ => exact .nil
    | [c], hf =>
      have h0 : Tokenizes [] (tokenizeFuel f []) := ih [] (by simp at hf ⊢; omega)
      rw [tokenizeFuel_nil] at h0
      by_cases hc : c = 0x24
      · subst hc
        simpa [tokenizeFuel] using Tokenizes.loneDollar (rest := []) (by simp) h0
      · simpa [tokenizeFuel, hc] using Tokenizes.lit hc h0
    | c :: p :: rest, hf =>
      simp only [List.length_cons] at hf
      simp only [tokenizeFuel]
      by_cases hc : c = 0x24
      · subst hc
        simp only [if_true]
        by_cases hp : p = 0x24
        · subst hp
          simp only [if_true]
          exact .dollarDollar (ih rest (by omega))
        · simp only [hp, if_false]
          by_cases hd : isAsciiDigit p = true
          · simp only [hd, if_true]
            obtain ⟨h1, h2, h3, h4⟩ := splitDigits_spec (p :: rest) 0 (by omega)
            have hne := splitDigits_ne_nil 0 p rest hd
            have hlen : (splitDigits 0 (p :: rest)).2.length < f := by
              have := congrArg List.length h1
              have hpos : 0 < (splitDigits 0 (p :: rest)).1.length :=
                List.length_pos_iff.mpr hne
              simp only [List.length_cons, List.length_append] at this
              omega
            have := Tokenizes.digits hne h2 h3 h4 (ih _ hlen)
            rw [← h1] at this
            exact this
          · simp only [hd, Bool.false_eq_true, if_false]
            by_cases hb : p = 0x7B
            · subst hb
              simp only [if_true]
              obtain ⟨h1, h2, h3⟩ := splitBrace_spec rest
              cases hs : (splitBrace rest).2 with
              | none =>
                simp only
                have e := h3 hs
                generalize (splitBrace rest).1 = nm at h1 e ⊢
                subst e
                exact .unterminated h1
              | some r =>
                simp only
                have hr := h2 r hs
                have hlen : r.length < f := by
                  have := congrArg List.length hr
                  simp only [List.length_cons, List.length_append] at this
                  omega
                have := Tokenizes.named h1 (ih r hlen)
                rw [← hr] at this
                exact this
            · simp only [hb, if_false]
              refine .loneDollar ?_ (ih _ (by simp only [List.length_cons]; omega))
              intro x hx
              simp only [List.head?_cons, Option.some.injEq] at hx
              subst hx
              exact ⟨hp, by simpa using hd, hb⟩
      · simp only [hc, if_false]
        exact .lit hc (ih _ (by simp only [List.length_cons]; omega))

theorem lastEnd_nil (c : Nat) : lastEnd c [] = c := rfl

theorem lastEnd_cons (c : Nat) (m : MatchR) (ms : List MatchR) :
    lastEnd c (m :: ms) = lastEnd m.range.2 ms := by
  cases ms with
  | nil => rfl
  | cons m' ms' =>
    simp only [lastEnd, List.getLast?_cons_cons]
    cases h : (m' :: ms').getLast? with
    | none => simp at h
    | some x => rfl

theorem gaps_nil (text : List Nat) (c : Nat) : gaps text c [] = [] := rfl

theorem gaps_cons (text : List Nat) (c : Nat) (m : MatchR) (ms : List MatchR) :
    gaps text c (m :: ms) = slice text c m.range.1 :: gaps text m.range.2 ms := by
  simp [gaps]

theorem gaps_length (text : List Nat) (c : Nat) (ms : List MatchR) :
    (gaps text c ms).length = ms.length := by
  simp [gaps]

/-- The first gap runs from the cursor to the start of the first match. -/
theorem gaps_zero (text : List Nat) (c : Nat) (ms : List MatchR) (h : 0 < ms.length) :
    (gaps text c ms)[0]'(by rw [gaps_length]; exact h) = slice text c ms[0].range.1 := by
  cases ms with
  | nil => simp at h
  | cons m ms => simp [gaps_cons]

/-- Gap `i+1` runs from the end of match `i` to the start of match `i+1`. -/
theorem gaps_succ (text : List Nat) (c : Nat) (ms : List MatchR) (i : Nat)
    (h : i + 1 < ms.length) :
    (gaps text c ms)[i + 1]'(by rw [gaps_length]; exact h) =
      slice text (ms[i]'(by omega)).range.2 ms[i + 1].range.1 := by
  simp [gaps]

/-- The loop of `replace_all(_with)` from an arbitrary cursor, in closed form. -/
theorem replaceAllLoop_eq (text : List Nat) (f : MatchR → List Nat) :
    ∀ (ms : List MatchR) (c : Nat),
      replaceAllLoop text f c ms =
        interleave (gaps text c ms) (ms.map f) ++ tailGap text c ms := by
  intro ms
  induction ms with
  | nil => intro c; simp [replaceAllLoop, interleave, gaps_nil, tailGap, lastEnd_nil]
  | cons m ms ih =>
    intro c
    rw [replaceAllLoop_cons, ih, gaps_cons]
    simp [interleave, tailGap, lastEnd_cons]

/-- With the identity replacement the loop copies `text[cursor..]`. -/
theorem replaceAllLoop_matched (text : List Nat) :
    ∀ (ms : List MatchR) (c : Nat), Sorted text.length c ms →
      replaceAllLoop text (matched text) c ms = slice text c text.length := by
  intro ms
  induction ms with
  | nil => intro c _; rfl
  | cons m ms ih =>
    intro c ⟨h1, h2, h3, h4⟩
    rw [replaceAllLoop_cons, ih _ h4, matched, slice_append h1 h2,
      slice_append (Nat.le_trans h1 h2) h3]

/-- `Sorted` in terms of the conjuncts delivered by the iterator (C09): every match is in range,
the first one starts at or after the cursor, consecutive matches do not overlap. -/
theorem sorted_iff (len : Nat) : ∀ (ms : List MatchR) (c : Nat),
    Sorted len c ms ↔
      (∀ m ∈ ms, m.range.1 ≤ m.range.2 ∧ m.range.2 ≤ len) ∧
      (∀ m, ms.head? = some m → c ≤ m.range.1) ∧
      (∀ i (h : i + 1 < ms.length), (ms[i]'(by omega)).range.2 ≤ ms[i + 1].range.1) := by
  intro ms
  induction ms with
  | nil => intro c; simp [Sorted]
  | cons m ms ih =>
    intro c
    simp only [Sorted, ih]
    constructor
    · rintro ⟨h1, h2, h3, h4, h5, h6⟩
      refine ⟨?_, ?_, ?_⟩
      · intro x hx
        simp only [List.mem_cons] at hx
        rcases hx with rfl | hx
        · exact ⟨h2, h3⟩
        · exact h4 x hx
      · intro x hx; simp at hx; subst hx; exact h1
      · intro i hi
        cases i with
        | zero =>
          cases ms with
          | nil => simp at hi
          | cons m' ms' => simpa using h5 m' (by simp)
        | succ i => simpa using h6 i (by simpa using hi)
    · rintro ⟨h1, h2, h3⟩
      refine ⟨h2 m (by simp), (h1 m (by simp)).1, (h1 m (by simp)).2,
        fun x hx => h1 x (by simp [hx]), ?_, ?_⟩
      · intro x hx
        cases ms with
        | nil => simp at hx
        | cons m' ms' =>
          simp at hx; subst hx
          simpa using h3 0 (by simp)
      · intro i hi
        have := h3 (i + 1) (by simpa using hi)
        simp only [List.getElem_cons_succ] at this
        exact this

/-! ## 3. Property theorems -/

/-! ### Concrete data for the non-vacuity examples

`exText = "ab cd"`; `exM` = a match of `(?<x>\w+) (\w+)` on it; `exMs` = the two matches of `\w+`. -/

def exText : List Nat := [0x61, 0x62, 0x20, 0x63, 0x64]
def exM : MatchR := { range := (0, 5), captures := [some (0, 2), some (3, 5)], names := [[0x78], []] }
def exMs : List MatchR :=
  [{ range := (0, 2), captures := [], names := [] }, { range := (3, 5), captures := [], names := [] }]

/-- **Soundness of the computable tokenizer**: its output is a derivation of the grammar. -/
theorem tokenize_sound (tpl : List Nat) : Tokenizes tpl (tokenize tpl) :=
  tokenizeFuel_sound _ _ (Nat.lt_succ_self _)

/-- **The grammar is deterministic** (and the tokenizer is complete). -/
theorem Tokenizes_tokenize {tpl : List Nat} {ts : List Tok} (h : Tokenizes tpl ts) :
    tokenize tpl = ts :=
  tokenizeFuel_complete h _ (Nat.lt_succ_self _)

theorem Tokenizes_unique {tpl : List Nat} {ts ts' : List Tok}
    (h : Tokenizes tpl ts) (h' : Tokenizes tpl ts') : ts = ts' := by
  rw [← Tokenizes_tokenize h, ← Tokenizes_tokenize h']

/-- `"$2 $1${x}$$"` tokenizes to `[group 2, lit ' ', group 1, named "x", dollar]`. -/
example : Tokenizes [0x24, 0x32, 0x20, 0x24, 0x31, 0x24, 0x7B, 0x78, 0x7D, 0x24, 0x24]
    [.group 2, .lit 0x20, .group 1, .named [0x78], .dollar] := by
  have h := tokenize_sound [0x24, 0x32, 0x20, 0x24, 0x31, 0x24, 0x7B, 0x78, 0x7D, 0x24, 0x24]
  have e : tokenize [0x24, 0x32, 0x20, 0x24, 0x31, 0x24, 0x7B, 0x78, 0x7D, 0x24, 0x24] =
      [.group 2, .lit 0x20, .group 1, .named [0x78], .dollar] := by decide
  rwa [e] at h

/-- **`expand_replacement` is: tokenize the template, render every token, concatenate.** -/
theorem expand_spec (m : MatchR) (text : List Nat) {tpl : List Nat} {ts : List Tok}
    (h : Tokenizes tpl ts) :
    expandReplacement m text tpl = ts.flatMap (render m text) := by
  rw [expandReplacement, expandFuel_eq_tokenizeFuel,
    tokenizeFuel_complete h _ (Nat.lt_succ_self _)]

theorem expand_tokenize (m : MatchR) (text tpl : List Nat) :
    expandReplacement m text tpl = (tokenize tpl).flatMap (render m text) :=
  expand_spec m text (tokenize_sound tpl)

/-- `"$2 $1${x}$$"` on `exM` gives `"cd abab$"`. -/
example : expandReplacement exM exText
    [0x24, 0x32, 0x20, 0x24, 0x31, 0x24, 0x7B, 0x78, 0x7D, 0x24, 0x24] =
    [0x63, 0x64, 0x20, 0x61, 0x62, 0x61, 0x62, 0x24] := by decide

/-- A template without `$` is copied (UTF-8 encoded) to the output. -/
theorem expand_no_dollar (m : MatchR) (text tpl : List Nat) (h : ∀ c ∈ tpl, c ≠ 0x24) :
    expandReplacement m text tpl = Utf8.encodeAll tpl := by
  have hT : Tokenizes tpl (tpl.map Tok.lit) := by
    induction tpl with
    | nil => exact .nil
    | cons c cs ih =>
      exact .lit (h c (by simp)) (ih (fun x hx => h x (by simp [hx])))
  rw [expand_spec m text hT, Utf8.encodeAll, List.flatMap_map]
  rfl

/-- `"é!"` ↦ `C3 A9 21`. -/
example : expandReplacement exM exText [0xE9, 0x21] = [0xC3, 0xA9, 0x21] := by
  rw [expand_no_dollar _ _ _ (by decide)]; decide

/-- The `$655361` behaviour: the digit loop stops right after the value exceeds 65535, so group
65536 is looked up and the trailing `1` is emitted as text. -/
example : tokenize [0x24, 0x36, 0x35, 0x35, 0x33, 0x36, 0x31] = [.group 65536, .lit 0x31] := by
  decide

example : expandReplacement exM exText [0x24, 0x36, 0x35, 0x35, 0x33, 0x36, 0x31] = [0x31] := by
  decide

/-- `$65535` is still read as one number; a following digit is consumed too (`$655350` looks up
group 655350). -/
example : tokenize [0x24, 0x36, 0x35, 0x35, 0x33, 0x35, 0x30] = [.group 655350] := by decide

/-- An unterminated `${x` is copied verbatim, `$` before a non-special char stays a `$`. -/
example : tokenize [0x24, 0x61, 0x24, 0x7B, 0x78] = [.dollar, .lit 0x61, .rawUnterminated [0x78]] := by
  decide

example : expandReplacement exM exText [0x24, 0x61, 0x24, 0x7B, 0x78] =
    [0x24, 0x61, 0x24, 0x7B, 0x78] := by decide

/-- **`replace_all_with` / `replace_all` in closed form** (no hypothesis): gap before each match,
then the replacement, …, then the tail. -/
theorem replace_all_with_spec (text : List Nat) (ms : List MatchR) (f : MatchR → List Nat) :
    replaceAllWith text ms f =
      interleave (gaps text 0 ms) (ms.map f) ++ tailGap text 0 ms :=
  replaceAllLoop_eq text f ms 0

theorem replace_all_spec (text : List Nat) (ms : List MatchR) (tpl : List Nat) :
    replaceAll text ms tpl =
      interleave (gaps text 0 ms)
        (ms.map fun m => (tokenize tpl).flatMap (render m text)) ++ tailGap text 0 ms := by
  rw [replaceAll, replaceAllLoop_eq]
  simp only [expand_tokenize]

/-- `replace_all` is `replace_all_with` applied to the template expansion. -/
theorem replace_all_eq_with (text : List Nat) (ms : List MatchR) (tpl : List Nat) :
    replaceAll text ms tpl = replaceAllWith text ms (fun m => expandReplacement m text tpl) := rfl

/-- `\w+` ↦ `"<$0>"` on `"ab cd"` gives `"<ab> <cd>"`. -/
example : replaceAll exText exMs [0x3C, 0x24, 0x30, 0x3E] =
    [0x3C, 0x61, 0x62, 0x3E, 0x20, 0x3C, 0x63, 0x64, 0x3E] := by decide

example : gaps exText 0 exMs = [[], [0x20]] ∧ tailGap exText 0 exMs = [] := by decide

/-- **Unmatched text is preserved**: for a sorted, in-range match list the output is
`pre₀ ++ x₀ ++ pre₁ ++ x₁ ++ … ++ tail`, where the very same `preᵢ` and `tail`, interleaved with
the matched pieces instead of the replacements, are exactly the input text. -/
theorem unmatched_preserved (text : List Nat) (ms : List MatchR) (f : MatchR → List Nat)
    (hs : Sorted text.length 0 ms) :
    replaceAllWith text ms f =
        interleave (gaps text 0 ms) (ms.map f) ++ tailGap text 0 ms ∧
    interleave (gaps text 0 ms) (ms.map (matched text)) ++ tailGap text 0 ms = text := by
  refine ⟨replace_all_with_spec text ms f, ?_⟩
  rw [← replaceAllLoop_eq, replaceAllLoop_matched text ms 0 hs, slice_full]

example : Sorted exText.length 0 exMs := by decide

/-- The hypothesis cannot be dropped: overlapping matches duplicate text. -/
example : ∃ text ms, ¬ Sorted text.length 0 ms ∧
    interleave (gaps text 0 ms) (ms.map (matched text)) ++ tailGap text 0 ms ≠ text :=
  ⟨[1, 2], [{ range := (0, 2), captures := [], names := [] },
            { range := (1, 2), captures := [], names := [] }], by decide, by decide⟩

/-- **Replacing every match by itself gives back the text.** -/
theorem replace_with_identity (text : List Nat) (ms : List MatchR)
    (hs : Sorted text.length 0 ms) :
    replaceAllWith text ms (fun m => slice text m.range.1 m.range.2) = text := by
  have := replaceAllLoop_matched text ms 0 hs
  rw [slice_full] at this
  exact this

example : replaceAllWith exText exMs (fun m => slice exText m.range.1 m.range.2) = exText := by
  decide

/-- `"$0"` is such an identity replacement. -/
theorem replace_all_dollar_zero (text : List Nat) (ms : List MatchR)
    (hs : Sorted text.length 0 ms) : replaceAll text ms [0x24, 0x30] = text := by
  have h0 : ∀ m : MatchR, expandReplacement m text [0x24, 0x30] =
      slice text m.range.1 m.range.2 := by
    intro m
    simp [expandReplacement, expandFuel, isAsciiDigit, parseGroupNum, MatchR.group]
  simp only [replaceAll, h0]
  exact replace_with_identity text ms hs

/-- **No match ⇒ unchanged.** -/
theorem no_match_unchanged (text tpl : List Nat) (f : MatchR → List Nat) :
    replaceAll text [] tpl = text ∧ replaceAllWith text [] f = text ∧
    replace text [] tpl = text ∧ replaceWith text [] f = text :=
  ⟨slice_full text, slice_full text, rfl, rfl⟩

example : replaceAll exText [] [0x24, 0x31] = exText := (no_match_unchanged _ _ (fun _ => [])).1

/-- **`replace` is `replace_all` restricted to the first match** (no hypothesis needed). -/
theorem replace_is_first_of_all (text : List Nat) (ms : List MatchR) (tpl : List Nat)
    (f : MatchR → List Nat) :
    replace text ms tpl = replaceAll text (ms.take 1) tpl ∧
    replaceWith text ms f = replaceAllWith text (ms.take 1) f := by
  cases ms with
  | nil => exact ⟨(slice_full text).symm, (slice_full text).symm⟩
  | cons m ms => exact ⟨rfl, rfl⟩

example : replace exText exMs [0x3C, 0x24, 0x30, 0x3E] =
    [0x3C, 0x61, 0x62, 0x3E, 0x20, 0x63, 0x64] := by decide

/-- `replace` keeps the text before and after the first match (for an in-range match). -/
theorem replace_preserves (text : List Nat) (m : MatchR) (ms : List MatchR) (tpl : List Nat)
    (h1 : m.range.1 ≤ m.range.2) (h2 : m.range.2 ≤ text.length) :
    replace text (m :: ms) tpl =
      slice text 0 m.range.1 ++ expandReplacement m text tpl ++ slice text m.range.2 text.length ∧
    slice text 0 m.range.1 ++ matched text m ++ slice text m.range.2 text.length = text :=
  ⟨rfl, slice_three h1 h2⟩

example : 0 ≤ 2 ∧ (exMs.head?.map (·.range)) = some (0, 2) ∧ 2 ≤ exText.length := by decide

example : replaceWith exText exMs (fun _ => [0x2A]) = [0x2A, 0x20, 0x63, 0x64] ∧
    replaceAllWith exText (exMs.take 1) (fun _ => [0x2A]) = [0x2A, 0x20, 0x63, 0x64] := by decide

/-- The literal `65535` of the specification is the crate's `MAX_CAPTURE_GROUPS`. -/
example : MAX_CAPTURE_GROUPS = 65535 := rfl

/-! ## Connection with C09: the hypothesis `Sorted` is what the match iterator delivers -/

/-- The iterator invariant of C09 (`ChainFrom`) implies `Sorted`. -/
theorem sorted_of_chain {len : Nat} : ∀ (ms : List MatchR) (lb : Nat),
    C09.ChainFrom len lb ms → Sorted len lb ms := by
  intro ms
  induction ms with
  | nil => intro _ _; trivial
  | cons m ms ih =>
    intro lb hc
    unfold C09.ChainFrom at hc
    refine ⟨hc.1, hc.2.1, hc.2.2.1, ih _ (C09.ChainFrom_mono ?_ hc.2.2.2)⟩
    split <;> omega

/-- `find_iter(text)` drained (any executor kind) is `Sorted`. -/
theorem iter_sorted {env : SearchEnv} (h : EnvOK env) (k : Kind) (start : Nat) :
    Sorted env.len start (collectK env k start) :=
  sorted_of_chain _ _ (C09.iter_chain h k start)

/-- End-to-end: `re.replace_all_with(text, |m| m.as_str(text))` returns `text`, and `replace_all`
keeps every unmatched gap, for the matches the iterator really produces. -/
theorem replace_with_identity_iter {env : SearchEnv} (h : EnvOK env) (k : Kind) (text : List Nat)
    (hlen : env.len = text.length) :
    replaceAllWith text (collectK env k 0) (fun m => slice text m.range.1 m.range.2) = text :=
  replace_with_identity text _ (hlen ▸ iter_sorted h k 0)

example : Sorted C09.exEnv.len 0 (collect C09.exEnv 0) := iter_sorted C09.exEnv_ok .btPrefix 0

#print axioms tokenize_sound
#print axioms Tokenizes_unique
#print axioms expand_spec
#print axioms expand_tokenize
#print axioms expand_no_dollar
#print axioms replace_all_with_spec
#print axioms replace_all_spec
#print axioms unmatched_preserved
#print axioms replace_with_identity
#print axioms replace_all_dollar_zero
#print axioms no_match_unchanged
#print axioms replace_is_first_of_all
#print axioms replace_preserves
#print axioms sorted_iff
#print axioms iter_sorted
#print axioms replace_with_identity_iter

end Regress.C17
