import Proofs.Lemmas.FrameLoop1
import Proofs.C06
import Proofs.Lemmas.Termination
/-!
# C02 (full) — the backtracking executor refines the PikeVM also on `Loop1CharBody`

`Proofs/C02.lean` (`C02_partial`) relates the two executors in lock step for programs without
`Loop1CharBody`. Here the restriction is dropped (`Proofs/Lemmas/FrameLoop1.lean`).

The backtracker executes a `loop1` in ONE tick (`run_scm_loop`: match the single-char body `min`
times, then greedily up to `max` times — or, lazily, only compute how far it could go) and pushes ONE
record `GreedyLoop1Char { continuation, min, max }` / `NonGreedyLoop1Char { … }`; backtracking into the
record moves `max` one character to the left (`next_left_pos`) resp. `min` one character to the right.
The PikeVM iterates: one tick per character, counting in `loop1_iters`, pushing an exit state
(greedy) or the iterating state (lazy) per iteration. The simulation is therefore a *stuttering* one:

* a record `GreedyLoop1Char { k, min, max }` stands for the PikeVM's exit states pending at
  `prev max, …, min` (top of the PikeVM stack = `prev max`);
* a record `NonGreedyLoop1Char { k, min, max }` stands for ONE PikeVM state: the one that iterates at
  the `loop1` instruction at `next min`, and from which `max` is where the iteration stops; when the
  backtracker resumes the record the PikeVM needs one extra tick;
* tick counts: PikeVM ≥ backtracker.

This needs valid input (`ValidAt`): the matchers accepted by `with_scm_loop_impl` advance by exactly
one character on the positions reachable (`L1.scm_oneStep_ascii`, `L1.scm_oneStep_utf8`), and
`next_left_pos`/`next_right_pos` invert that step; the positions stay valid by the position discipline
of C06 (`Safety.Spec`, `Bt.Inv`), which is threaded through the simulation.

The local facts (`Proofs/Lemmas/FrameLoop1.lean`, namespace `Regress.VM.L1`), i.e. "`loop1_equiv`":
* `runScmLoop_spec`: what the backtracker's single step computes, as relations over the body matcher
  `μ` (`Exactly μ min pos a`, `UpTo μ (max - min) a c`, record pushed iff `a ≠ c`);
* `pk_body`, `pk_loop1_tick`: one PikeVM dispatch of `Loop1CharBody` in terms of the same `μ`;
* `pk_min_phase`, `pk_greedy_phase`, `lazy_tick`: the PikeVM's iteration reaches, tick by tick, exactly
  the configuration the backtracker's record stands for (greedy: exit states at `a, …, prev c` below
  the current state at `c`, i.e. longest first; lazy: current state at `a`, the iterating state
  pending, i.e. shortest first);
* `tryBacktrack_sim1`: backtracking into a record resumes exactly the PikeVM's next pending state
  (`next_left_pos`/`next_right_pos` = one step back along the chain, by `OneStep`);
* `run_sim1`: the run-level stuttering simulation (all other instructions via `Sim.step_sim`,
  transported by `step_onto`/`Snap1.rebase`).

Hypotheses (all decidable; `example`s below on dumps of the real compiler):
* `Sim.loopsStructured`, `Sim.looksStructured` — as in `C02_partial`;
* `wfProgUtf8 prog` = `wfProg prog` (structure, in particular I9/I10: a `loop1` body is an accepted
  single-char matcher consuming exactly one element) `∧ checkCert prog (mkCert prog)` (the phase
  certificate of C06 for `byteSeq` chunks that split a character);
* `ValidAt inp pos`: ASCII input with all bytes `< 128` and `pos ≤ len`, or well-formed UTF-8 and `pos`
  a char boundary.
-/
namespace Regress.C02Full

open Regress.VM Regress.VM.Bt Regress.VM.Safety Regress.VM.Sim Regress.VM.L1

/-- A valid haystack and a valid start position in it. -/
inductive ValidAt (inp : Input) (pos : Nat) : Prop
  | ascii : inp.kind = .ascii → asciiOK inp = true → pos ≤ inp.len → ValidAt inp pos
  | utf8 (cs : List Nat) : Utf8Text inp cs → VUtf8 inp pos → ValidAt inp pos

theorem inpOK_of_ascii {inp : Input} (ha : asciiOK inp = true) : inpOK inp = true := by
  unfold inpOK
  split
  · rfl
  · simp only [asciiOK, Array.all_eq_true] at ha ⊢
    intro i hi
    have := ha i hi
    simp only [decide_eq_true_eq] at this ⊢
    omega

theorem inpOK_of_utf8 {inp : Input} {cs : List Nat} (h : Utf8Text inp cs) : inpOK inp = true := by
  unfold inpOK; rw [h.kind]

theorem loop1OK_ascii {prog : Prog} {inp : Input} (hw : wfProg prog = true) (hk : inp.kind = .ascii)
    (ha : asciiOK inp = true) : Loop1OK prog inp (AsciiA prog inp) (· ≤ inp.len) :=
  fun _ hi hm hq h => scm_oneStep_ascii hw hk ha hi hm hq h

theorem loop1OK_utf8 {prog : Prog} {inp : Input} {cs : List Nat} (hw : wfProg prog = true)
    (ht : Utf8Text inp cs) (c : Cert) : Loop1OK prog inp (CertA prog c cs) (VUtf8 inp) :=
  fun _ hi hm hq h => scm_oneStep_utf8 hw ht hi hm hq h

/-- The outcomes of two attempts correspond: same match end, equal captures, PikeVM ticks ≥
backtracker ticks; both fail; `.error` outcomes are not compared; nothing is claimed if the PikeVM
runs out of its budget; the backtracker does not run out of budget unless the PikeVM does. -/
def AttemptSim (ob : Bt.Outcome) (op : Pk.Outcome) : Prop :=
  match ob, op with
  | .error _, _ => True
  | _, .error _ => True
  | _, .outOfFuel => True
  | .matched e st s _, .matched e' st' s' _ => e = e' ∧ Bt.capsOf st = Pk.capsOf st' ∧ s ≤ s'
  | .failed _ s _, .failed s' _ => s ≤ s'
  | _, _ => False

theorem attemptSim_of_outSim2 {prog : Prog} {ob : Bt.Outcome} {op : Pk.Outcome}
    (h : OutSim2 prog none 0 0 ob op) : AttemptSim ob op := by
  cases ob <;> cases op <;> simp only [OutSim2, AttemptSim] at h ⊢ <;> try trivial
  · obtain ⟨h1, _, h2, _, h3, _⟩ := h
    exact ⟨h1, by simp [Bt.capsOf, Pk.capsOf, h3.groups], by omega⟩
  · omega

/-- **Stuttering simulation, general form** (`bt_refines_pk` with `loop1`): on related configurations
(`Sim.StRel`, `L1.Snap1`, safety invariant `Bt.Inv` of C06 for the position discipline
`Spec prog inp A V` + `Loop1OK`), with budgets such that the backtracker's remaining budget is at
least the PikeVM's, the two runs produce corresponding outcomes (`L1.OutSim2`). -/
theorem bt_refines_pk_loop1 {prog : Prog} (hs : loopsStructured prog = true)
    (hl : looksStructured prog = true) {inp : Input} (hok : inpOK inp = true)
    {A : Bool → Nat → Nat → Prop} {V : Nat → Prop} (hsp : Spec prog inp A V) (hw : wfProg prog = true)
    (h1 : Loop1OK prog inp A V) (limitB limitP sfP sfB : Nat) (fwd : Bool) (st : Bt.State)
    (bts : Array BtInsn) (saved : List Pk.State) (cur : Pk.State) (stepsB stepsP peakB peakP : Nat)
    (J : Option Nat) (b : Nat) (hrel : StRel prog cur.ip st cur) (h0 : cur.loop1Iters = 0)
    (hsnap : Snap1 prog inp A fwd bts st saved) (hF1 : limitB ≤ stepsB + sfB)
    (hF2 : limitP + stepsB ≤ limitB + stepsP) (hJ : encl prog cur.ip = J)
    (hb : RecsIn prog (enclIs prog J) allTrue allTrue bts)
    (hinv : Inv prog A V b fwd cur.ip cur.pos st bts) :
    OutSim2 prog J stepsB stepsP (Bt.run prog inp limitB sfB cur.ip cur.pos fwd st bts stepsB peakB)
      (Pk.runStates prog inp limitP sfP (saved.reverse.toArray.push cur) fwd stepsP peakP) :=
  run_sim1 hs hl hok hsp hw h1 limitB limitP sfP sfP (Nat.le_refl _) sfB fwd st bts saved cur stepsB stepsP
    peakB peakP J b hrel h0 hsnap hF1 hF2 hJ hb hinv

/-- **C02 with `Loop1CharBody`**: one anchored attempt of either executor
(`classicalbacktrack::verif_attempt` with tick budget `fB`, `pikevm::verif_attempt` with budget
`fP ≤ fB`) on valid input gives the same result: the same match end and captures, or both fail —
unless one of them hits a panic/UB site (`.error`; excluded by `C02_loop1_full`) or the PikeVM runs out
of its budget. The PikeVM uses at least as many ticks as the backtracker; in particular the
backtracker does not run out of budget if the PikeVM does not. -/
theorem C02_loop1 (prog : Prog) (hs : loopsStructured prog = true) (hl : looksStructured prog = true)
    (hw : wfProgUtf8 prog = true) (inp : Input) (pos : Nat) (hv : ValidAt inp pos) (fB fP : Nat)
    (hf : fP ≤ fB) : AttemptSim (Bt.attempt prog inp fB pos) (Pk.attempt prog inp fP pos) := by
  simp only [wfProgUtf8, Bool.and_eq_true] at hw
  obtain ⟨hw, hc⟩ := hw
  cases hv with
  | ascii hk ha hp =>
    exact attemptSim_of_outSim2 (attempt_sim1 hs hl (inpOK_of_ascii ha) (specAscii hw hk) hw
      (loop1OK_ascii hw hk ha) fB fP pos hf ⟨C06.wf_size_pos hw, hp⟩)
  | utf8 cs ht hp =>
    exact attemptSim_of_outSim2 (attempt_sim1 hs hl (inpOK_of_utf8 ht) (specUtf8Cert hw hc ht) hw
      (loop1OK_utf8 hw ht _) fB fP pos hf (C06.cert_start hw hc ht hp))

/-- The same for an attempt of the backtracker on a *reused* matcher state (any loop slots, groups
cleared — what `BacktrackExecutor` has after `successful_match` or a failed attempt). -/
theorem C02_loop1_reused (prog : Prog) (hs : loopsStructured prog = true)
    (hl : looksStructured prog = true) (hw : wfProgUtf8 prog = true) (inp : Input) (pos : Nat)
    (hv : ValidAt inp pos) (fB fP : Nat) (hf : fP ≤ fB) (st : Bt.State)
    (hg : st.groups = (freshState prog 0).groups) (hsz : st.loops.size = prog.loops) :
    AttemptSim (Bt.attemptWith prog inp fB pos st) (Pk.attempt prog inp fP pos) := by
  simp only [wfProgUtf8, Bool.and_eq_true] at hw
  obtain ⟨hw, hc⟩ := hw
  cases hv with
  | ascii hk ha hp =>
    exact attemptSim_of_outSim2 (attemptWith_sim1 hs hl (inpOK_of_ascii ha) (specAscii hw hk) hw
      (loop1OK_ascii hw hk ha) fB fP pos hf ⟨C06.wf_size_pos hw, hp⟩ st hg hsz)
  | utf8 cs ht hp =>
    exact attemptSim_of_outSim2 (attemptWith_sim1 hs hl (inpOK_of_utf8 ht) (specUtf8Cert hw hc ht) hw
      (loop1OK_utf8 hw ht _) fB fP pos hf (C06.cert_start hw hc ht hp) st hg hsz)

/-! ## With the full well-formedness hypothesis of C06: no `.error` case -/

theorem bt_attempt_no_error {prog : Prog} (hfull : C06.wfProgFull prog = true) {inp : Input} {pos : Nat}
    (hv : ValidAt inp pos) (fuel : Nat) (e : String) : Bt.attempt prog inp fuel pos ≠ .error e := by
  intro he
  simp only [C06.wfProgFull, Bool.and_eq_true] at hfull
  obtain ⟨⟨⟨h1, h2⟩, h3⟩, h4⟩ := hfull
  cases hv with
  | ascii hk ha hp =>
    have := C06.bt_safe_ascii_full h1 h4 h3 hk hp (C06.freshState_ok prog _ 0) (C06.freshState_clean prog 0)
      fuel fuel
    have he' : Bt.run prog inp fuel fuel 0 pos true (freshState prog 0) #[.exhausted] 0 0 = .error e := he
    rw [he'] at this; exact this
  | utf8 cs ht hp =>
    have := C06.bt_safe_utf8_full h1 h2 h4 h3 ht hp (C06.freshState_ok prog _ 0)
      (C06.freshState_clean prog 0) fuel fuel
    have he' : Bt.run prog inp fuel fuel 0 pos true (freshState prog 0) #[.exhausted] 0 0 = .error e := he
    rw [he'] at this; exact this

theorem pk_attempt_no_error {prog : Prog} (hfull : C06.wfProgFull prog = true) {inp : Input} {pos : Nat}
    (hv : ValidAt inp pos) (fuel : Nat) (e : String) : Pk.attempt prog inp fuel pos ≠ .error e := by
  intro he
  simp only [C06.wfProgFull, Bool.and_eq_true] at hfull
  obtain ⟨⟨⟨h1, h2⟩, h3⟩, h4⟩ := hfull
  cases hv with
  | ascii hk ha hp =>
    have := C06.pk_safe_ascii_full h1 h4 h3 hk hp pos fuel
    have he' : Pk.attemptAt prog inp fuel pos pos = .error e := he
    rw [he'] at this; exact this
  | utf8 cs ht hp =>
    have := C06.pk_safe_utf8_full h1 h2 h4 h3 ht hp pos fuel
    have he' : Pk.attemptAt prog inp fuel pos pos = .error e := he
    rw [he'] at this; exact this

/-- **C02 for all programs the compiler emits** (decidable hypotheses `loopsStructured`,
`looksStructured`, `wfProgFull`), valid input: with budgets `fP ≤ fB`, if the PikeVM attempt does not
run out of its budget then the backtracker attempt does not either and both report the same match end
and the same captures, or both fail; the PikeVM used at least as many ticks. Neither reports an
`.error`. -/
theorem C02_loop1_full (prog : Prog) (hs : loopsStructured prog = true) (hl : looksStructured prog = true)
    (hfull : C06.wfProgFull prog = true) (inp : Input) (pos : Nat) (hv : ValidAt inp pos) (fB fP : Nat)
    (hf : fP ≤ fB) :
    match Bt.attempt prog inp fB pos, Pk.attempt prog inp fP pos with
    | .error _, _ => False
    | _, .error _ => False
    | _, .outOfFuel => True
    | .matched e st s _, .matched e' st' s' _ => e = e' ∧ Bt.capsOf st = Pk.capsOf st' ∧ s ≤ s'
    | .failed _ s _, .failed s' _ => s ≤ s'
    | _, _ => False := by
  have hwu : wfProgUtf8 prog = true := by
    simp only [C06.wfProgFull, Bool.and_eq_true] at hfull
    simp [wfProgUtf8, hfull.1.1.1, hfull.1.1.2]
  have h := C02_loop1 prog hs hl hwu inp pos hv fB fP hf
  have hB := bt_attempt_no_error hfull hv fB
  have hP := pk_attempt_no_error hfull hv fP
  generalize Bt.attempt prog inp fB pos = ob at h hB
  generalize Pk.attempt prog inp fP pos = op at h hP
  cases ob <;> cases op <;> simp only [AttemptSim] at h ⊢ <;> first
    | exact h
    | exact absurd rfl (hB _)
    | exact absurd rfl (hP _)
    | trivial

/-- Match end and captures of an outcome (`none` = no match). -/
def btResult : Bt.Outcome → Option (Nat × Api.Caps)
  | .matched e st _ _ => some (e, Bt.capsOf st)
  | _ => none
def pkResult : Pk.Outcome → Option (Nat × Api.Caps)
  | .matched e st _ _ => some (e, Pk.capsOf st)
  | _ => none

/-- Whenever both attempts come to an end (any budgets, equal or not), they agree. -/
theorem C02_loop1_results (prog : Prog) (hs : loopsStructured prog = true)
    (hl : looksStructured prog = true) (hfull : C06.wfProgFull prog = true) (inp : Input) (pos : Nat)
    (hv : ValidAt inp pos) (fB fP : Nat) (hB : Bt.attempt prog inp fB pos ≠ .outOfFuel)
    (hP : Pk.attempt prog inp fP pos ≠ .outOfFuel) :
    btResult (Bt.attempt prog inp fB pos) = pkResult (Pk.attempt prog inp fP pos) := by
  -- raise the backtracker's budget to `max fB fP`: its outcome does not change
  have hmono := Bt.attempt_fuel_mono prog inp (Nat.le_max_left fB fP) pos hB
  have h := C02_loop1_full prog hs hl hfull inp pos hv (max fB fP) fP (Nat.le_max_right _ _)
  rw [hmono] at h
  generalize Bt.attempt prog inp fB pos = ob at h hB
  generalize Pk.attempt prog inp fP pos = op at h hP
  cases ob <;> cases op <;> simp only [btResult, pkResult] at h ⊢ <;> first
    | exact absurd h id
    | exact absurd rfl hB
    | exact absurd rfl hP
    | rfl
    | (obtain ⟨h1, h2, _⟩ := h; rw [h1, h2])

/-! ## Non-vacuity: dumps of the real compiler with `Loop1CharBody` -/

/-- `/(a+?)(b*)c|(?<=(x*))\1y{2,3}?z/`: greedy and non-greedy `loop1`, one inside a look-behind
(matched right to left), a bounded lazy one. -/
def progL1 : Prog :=
  { insns := #[.alt 12, .beginCaptureGroup 0, .byteSeq [0x61], .loop1 0 none false, .byteSeq [0x61],
               .endCaptureGroup 0, .beginCaptureGroup 1, .loop1 0 none true, .byteSeq [0x62],
               .endCaptureGroup 1, .byteSeq [0x63], .jump 23, .lookbehind false 2 3 18,
               .beginCaptureGroup 2, .loop1 0 none true, .byteSeq [0x78], .endCaptureGroup 2, .goal,
               .backRef 0 false, .byteSeq [0x79, 0x79], .loop1 0 (some 1) false, .byteSeq [0x79],
               .byteSeq [0x7a], .goal],
    brackets := #[], loops := 0, groups := 3, flags := {}, names := [], startPred := .arbitrary }

#guard (match parseProg "P~0~3~-~-|S~arbitrary|I~alt~12|I~begin~0|I~byteseq~61|I~loop1~0~inf~0|I~byteseq~61|I~end~0|I~begin~1|I~loop1~0~inf~1|I~byteseq~62|I~end~1|I~byteseq~63|I~jump~23|I~lookbehind~0~2~3~18|I~begin~2|I~loop1~0~inf~1|I~byteseq~78|I~end~2|I~goal|I~backref~0~0|I~byteseq~79~79|I~loop1~0~1~0|I~byteseq~79|I~byteseq~7a|I~goal|" with
  | .ok p => p == progL1 | .error _ => false)

/-- `/(?:(é+)\1|[a-c]{1,3}?)*d/`: `loop1` bodies inside a general loop: a two-byte character (greedy)
and a byte set (lazy, bounded). -/
def progL2 : Prog :=
  { insns := #[.enterLoop 0 0 none true 14, .resetCaptureGroup 0, .alt 10, .beginCaptureGroup 0,
               .byteSeq [0xc3, 0xa9], .loop1 0 none true, .byteSeq [0xc3, 0xa9], .endCaptureGroup 0,
               .backRef 0 false, .jump 13, .byteSet [0x61, 0x62, 0x63], .loop1 0 (some 2) false,
               .byteSet [0x61, 0x62, 0x63], .loopAgain 0, .byteSeq [0x64], .goal],
    brackets := #[], loops := 1, groups := 1, flags := {}, names := [], startPred := .arbitrary }

#guard (match parseProg "P~1~1~-~-|S~arbitrary|I~enterloop~0~0~inf~1~14|I~reset~0|I~alt~10|I~begin~0|I~byteseq~c3~a9|I~loop1~0~inf~1|I~byteseq~c3~a9|I~end~0|I~backref~0~0|I~jump~13|I~byteset~61~62~63|I~loop1~0~2~0|I~byteset~61~62~63|I~loopagain~0|I~byteseq~64|I~goal|" with
  | .ok p => p == progL2 | .error _ => false)

example : simpleProg progL1 = false ∧ loopsStructured progL1 = true ∧ looksStructured progL1 = true ∧
    C06.wfProgFull progL1 = true := by decide +kernel
example : simpleProg progL2 = false ∧ loopsStructured progL2 = true ∧ looksStructured progL2 = true ∧
    C06.wfProgFull progL2 = true := by decide +kernel
example : loopsStructured C06.exProg1 = true ∧ looksStructured C06.exProg1 = true ∧
    loopsStructured C06.exProg2 = true ∧ looksStructured C06.exProg2 = true := by decide +kernel

/-- "aabbc" (ASCII) and "xxxyyyz". -/
def inpL1a : Input := { kind := .ascii, bytes := #[0x61, 0x61, 0x62, 0x62, 0x63], unicode := false }
def inpL1b : Input :=
  { kind := .ascii, bytes := #[0x78, 0x78, 0x78, 0x79, 0x79, 0x79, 0x7a], unicode := false }
/-- "éébcd" (UTF-8). -/
def inpL2 : Input := { kind := .utf8, bytes := Utf8.text [0xE9, 0xE9, 0x62, 0x63, 0x64], unicode := false }

theorem inpL1a_valid : ValidAt inpL1a 0 := .ascii rfl (by decide +kernel) (by decide +kernel)
theorem inpL1b_valid : ValidAt inpL1b 3 := .ascii rfl (by decide +kernel) (by decide +kernel)
theorem inpL2_valid : ValidAt inpL2 0 := .utf8 _ ⟨rfl, rfl, by decide +kernel⟩ (by decide +kernel)

/-- The two executors on these inputs: same match, same captures, different tick counts (the PikeVM
iterates). -/
example :
    (match Bt.attempt progL1 inpL1a 100 0 with
     | .matched e st s _ => some (e, Bt.capsOf st, s) | _ => none) =
      some (5, [some (0, 2), some (2, 4), none], 16) ∧
    (match Pk.attempt progL1 inpL1a 100 0 with
     | .matched e st s _ => some (e, Pk.capsOf st, s) | _ => none) =
      some (5, [some (0, 2), some (2, 4), none], 19) := by
  constructor <;> decide +kernel
example :
    (match Bt.attempt progL1 inpL1b 100 3 with
     | .matched e st s _ => some (e, Bt.capsOf st, s) | _ => none) =
      some (7, [none, none, some (0, 3)], 14) ∧
    (match Pk.attempt progL1 inpL1b 100 3 with
     | .matched e st s _ => some (e, Pk.capsOf st, s) | _ => none) =
      some (7, [none, none, some (0, 3)], 18) := by
  constructor <;> decide +kernel

/-- Instances of `C02_loop1_full`. -/
example (fB fP : Nat) (hf : fP ≤ fB) :
    match Bt.attempt progL1 inpL1a fB 0, Pk.attempt progL1 inpL1a fP 0 with
    | .error _, _ => False
    | _, .error _ => False
    | _, .outOfFuel => True
    | .matched e st s _, .matched e' st' s' _ => e = e' ∧ Bt.capsOf st = Pk.capsOf st' ∧ s ≤ s'
    | .failed _ s _, .failed s' _ => s ≤ s'
    | _, _ => False :=
  C02_loop1_full progL1 (by decide +kernel) (by decide +kernel) (by decide +kernel) inpL1a 0 inpL1a_valid
    fB fP hf
example (fB fP : Nat) (hB : Bt.attempt progL2 inpL2 fB 0 ≠ .outOfFuel)
    (hP : Pk.attempt progL2 inpL2 fP 0 ≠ .outOfFuel) :
    btResult (Bt.attempt progL2 inpL2 fB 0) = pkResult (Pk.attempt progL2 inpL2 fP 0) :=
  C02_loop1_results progL2 (by decide +kernel) (by decide +kernel) (by decide +kernel) inpL2 0 inpL2_valid
    fB fP hB hP

/-! ## The validity hypothesis is needed

On an invalid haystack the single-step backtracking of `GreedyLoop1Char` leaves the positions the
loop visited, and the two executors genuinely differ: `/(?:é)*\xA9/`-like program (a `loop1` over the
two-byte character `é`, then the byte `A9`) on the ill-formed input `C3 A9 A9` *declared ASCII*: the
backtracker matches `é` once, fails on the rest, steps `max` back by ONE BYTE (to offset 1, inside the
character) and matches the continuation byte there; the PikeVM's only alternative is offset 0. -/
def progBad : Prog :=
  { insns := #[.loop1 0 none true, .byteSeq [0xc3, 0xa9], .byteSeq [0xa9], .byteSeq [0xa9], .goal],
    brackets := #[], loops := 0, groups := 0, flags := {}, names := [], startPred := .arbitrary }
def inpBad : Input := { kind := .ascii, bytes := #[0xc3, 0xa9, 0xa9], unicode := false }

example : wfProg progBad = true ∧ asciiOK inpBad = false := by decide +kernel
theorem invalid_input_differs :
    (match Bt.attempt progBad inpBad 100 0 with | .matched e _ _ _ => some e | _ => none) = some 3 ∧
    (match Pk.attempt progBad inpBad 100 0 with | .failed _ _ => true | _ => false) = true := by
  constructor <;> decide +kernel

end Regress.C02Full

#print axioms Regress.C02Full.bt_refines_pk_loop1
#print axioms Regress.C02Full.C02_loop1
#print axioms Regress.C02Full.C02_loop1_reused
#print axioms Regress.C02Full.C02_loop1_full
#print axioms Regress.C02Full.C02_loop1_results
#print axioms Regress.C02Full.invalid_input_differs
