import Proofs.Lemmas.ESLaws
import RegressModel.Spec.ESMatch
/-!
# C01 — the first match is the one ECMAScript prescribes

The reference is `Regress.ES` (`RegressModel/Spec/*`): ECMA-262 §22.2.2 transliterated (written
without reading the Rust sources, validated against V8 on 225 000 cases).  The *full* statement
of C01 is

    C01_Full :  ∀ pattern flags haystack start,
      implementation.find_from(pattern, flags, haystack, start).next()
        = ES.esExec flags (ast of pattern) haystack start

and is NOT proved (it needs the parser model ↔ ES grammar and the compiler-correctness keystone,
DESIGN.md §3.5).  It is decided per run by the `esfind` differential: the harness generates
pattern ASTs, prints them as a pattern string for the implementation and as an AST for `ES.esExec`,
and every difference is reported with the concrete input.  What is proved here are the laws of the
specification that the property's wording relies on ("smallest offset ≥ start", "ordered
(priority) search", alternation/sequence structure), so that the oracle is known to have them.
-/
namespace Regress.C01
open Regress.ES

/-- **Leftmost.** If the specification returns a match, it starts at the least index `≥ start` at
which the anchored match succeeds (with that attempt's end and captures); all earlier indices fail. -/
theorem spec_first_match_is_leftmost {flags : Flags} {pattern : Node} {input : Array Nat}
    {start fuel s e : Nat} {caps : List (Option (Nat × Nat))}
    (h : esExec flags pattern input start fuel = .matched s e caps) :
    start ≤ s ∧ s ≤ input.size ∧
    matchAt input pattern (RER.ofFlags flags (countParens pattern)) fuel s = .success ⟨e, caps⟩ ∧
    ∀ j, start ≤ j → j < s →
      matchAt input pattern (RER.ofFlags flags (countParens pattern)) fuel j = .failure :=
  esExec_matched_least h

/-- **No match means no index matches.** -/
theorem spec_no_match {flags : Flags} {pattern : Node} {input : Array Nat} {start fuel : Nat}
    (h : esExec flags pattern input start fuel = .noMatch) :
    ∀ j, start ≤ j → j ≤ input.size →
      matchAt input pattern (RER.ofFlags flags (countParens pattern)) fuel j = .failure :=
  esExec_noMatch h

/-- **Alternation is ordered and associative** (what licenses building `a|b|c` as a balanced tree). -/
theorem spec_alt_assoc (flags : Flags) (a b c : Node) (input : Array Nat) (start fuel : Nat) :
    esExec flags (.alt [.alt [a, b], c]) input start fuel = esExec flags (.alt [a, .alt [b, c]]) input start fuel :=
  esExec_alt_assoc flags a b c input start fuel

/-- **Sequencing is associative.** -/
theorem spec_cat_flatten (flags : Flags) (a b c : Node) (input : Array Nat) (start fuel : Nat) :
    esExec flags (.cat [a, .cat [b, c]]) input start fuel = esExec flags (.cat [a, b, c]) input start fuel :=
  esExec_cat_flatten flags a b c input start fuel

/-- **A non-capturing group is transparent.** -/
theorem spec_nc (flags : Flags) (x : Node) (input : Array Nat) (start fuel : Nat) :
    esExec flags (.nc x) input start fuel = esExec flags x input start fuel :=
  esExec_nc flags x input start fuel

/-- **Fuel is only a bound**: an answer other than `outOfFuel` is the answer for every larger fuel. -/
theorem spec_fuel_mono {flags : Flags} {pattern : Node} {input : Array Nat} {start f1 f2 : Nat}
    (hle : f1 ≤ f2) (h : esExec flags pattern input start f1 ≠ .outOfFuel) :
    esExec flags pattern input start f2 = esExec flags pattern input start f1 :=
  esExec_fuel_mono flags pattern input start hle h

end Regress.C01

#print axioms Regress.C01.spec_first_match_is_leftmost
#print axioms Regress.C01.spec_no_match
#print axioms Regress.C01.spec_alt_assoc
#print axioms Regress.C01.spec_cat_flatten
#print axioms Regress.C01.spec_nc
#print axioms Regress.C01.spec_fuel_mono
