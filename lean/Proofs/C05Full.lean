import Proofs.C02Full
import Proofs.C02
import Proofs.Lemmas.TerminationBt
/-!
# C05 (full) — the backtracking executor terminates, with an explicit tick bound, on programs with
general loops, `Loop1CharBody` and look-arounds

`Proofs/C05.lean` proves termination of the backtracker only for loop-free programs, and of the
PikeVM for programs with loops but without look-arounds. Here:

* **Route 1** (`bt_terminates_of_pk`): the simulation of C02 transfers termination *and the tick
  bound* from the PikeVM to the backtracker. With `C02Full.C02_loop1_full` (stuttering simulation,
  PikeVM ticks ≥ backtracker ticks): if the PikeVM attempt ends within `B` ticks with budget `fP`, the
  backtracker attempt ends within `B` ticks with any budget `fB ≥ fP`. (`bt_ticks_eq_pk_simple`: for
  programs without `loop1` the tick counts are equal — lock step, `C02.C02_partial`.)
* **Route 2** (`pk_terminates_with_looks` = `Pk.attempt_terminates3`, `Proofs/Lemmas/TerminationBt.lean`):
  the lexicographic rank argument of C05 §(d) extended to look-arounds by induction on the nesting
  depth; bound `Pk.lookBound prog L = (3 ^ Pk.rankBound prog L + 1) ^ (Pk.lookDepth prog + 1)`.
  The semantic heart is the empty-iteration check of `run_loop`
  (`iteration > min ∧ entry == pos ⇒ fail`): every iteration beyond `min` strictly advances the
  position, the iterations up to `min` are bounded by `min` — this is the digit
  `2 * (min + 1 - iters) + [entry ≠ pos]` of `Pk.rank`.
* **`C05_bound`**: both together. Hypotheses, all decidable and checked on dumps of the real compiler:
  `Sim.loopsStructured`, `Sim.looksStructured` (C02), `C06.wfProgFull` (C06), `Pk.lookLoopProg`
  (forward jumps, properly nested loops with unique ids, closed look-around bodies); valid input
  (`C02Full.ValidAt`).
-/
namespace Regress.C05Full

open Regress.VM Regress.VM.Sim Regress.C02Full

/-- `wfProg` clause I9 is `Pk.loop1Scm`. -/
theorem loop1Scm_of_wfProg {prog : Prog} (hw : wfProg prog = true) : Pk.loop1Scm prog = true := by
  unfold Pk.loop1Scm
  rw [List.all_eq_true]
  intro j hj
  cases hi : prog.insns[j]? with
  | none => rfl
  | some i =>
    cases i <;> try rfl
    next mn mx g =>
      have hwi := Safety.wf_insn hw hi
      simp only [wfInsn, Bool.and_eq_true] at hwi
      have hb := hwi.2
      cases hb' : prog.insns[j + 1]? with
      | none => rw [hb'] at hb; cases hb
      | some b =>
        rw [hb'] at hb
        simp only [Bool.and_eq_true] at hb
        simpa using hb.1

/-! ## Route 1: the backtracker is at least as fast as the PikeVM -/

/-- **`bt_terminates_of_pk`**: for programs covered by the simulation (`C02_loop1_full`), on valid
input: if the PikeVM attempt with tick budget `fP` ends — a match or a failure — within `B` ticks, then
the backtracker attempt with any budget `fB ≥ fP` ends within `B` ticks too (and neither is an
`.error`). -/
theorem bt_terminates_of_pk (prog : Prog) (hs : loopsStructured prog = true)
    (hl : looksStructured prog = true) (hfull : C06.wfProgFull prog = true) (inp : Input) (pos : Nat)
    (hv : ValidAt inp pos) (fP fB : Nat) (hf : fP ≤ fB) (B : Nat)
    (hP : (Pk.attempt prog inp fP pos).within B) :
    (Bt.attempt prog inp fB pos).within B ∧ Bt.attempt prog inp fB pos ≠ .outOfFuel ∧
      ∀ e, Bt.attempt prog inp fB pos ≠ .error e := by
  have h := C02_loop1_full prog hs hl hfull inp pos hv fB fP hf
  have hB := bt_attempt_no_error hfull hv fB
  generalize Bt.attempt prog inp fB pos = ob at h hB ⊢
  generalize Pk.attempt prog inp fP pos = op at h hP
  cases ob <;> cases op <;> simp only [Pk.Outcome.within, Bt.Outcome.within] at h hP ⊢ <;> first
    | exact absurd h id
    | exact absurd hP id
    | exact absurd rfl (hB _)
    | (refine ⟨?_, by simp, by simp⟩; omega)

/-- Lock step: for programs without `Loop1CharBody` (no validity hypothesis, any input with
`inpOK`) the two attempts with the same budget use the same number of ticks, so a bound for one is a
bound for the other — provided the PikeVM attempt is not an `.error`. -/
theorem bt_ticks_eq_pk_simple (prog : Prog) (hs : loopsStructured prog = true)
    (hl : looksStructured prog = true) (hsimple : simpleProg prog = true) (inp : Input)
    (hok : inpOK inp = true) (fuel pos : Nat) (hPe : ∀ e, Pk.attempt prog inp fuel pos ≠ .error e)
    (B : Nat) (hP : (Pk.attempt prog inp fuel pos).within B) :
    (Bt.attempt prog inp fuel pos).within B := by
  have h := C02.C02_partial prog hs hl hsimple inp hok fuel pos
  generalize Bt.attempt prog inp fuel pos = ob at h ⊢
  generalize Pk.attempt prog inp fuel pos = op at h hP hPe
  cases ob <;> cases op <;> simp only [Pk.Outcome.within, Bt.Outcome.within] at h hP ⊢ <;> first
    | exact absurd h id
    | exact absurd hP id
    | exact absurd rfl (hPe _)
    | trivial
    | (obtain ⟨_, _, h3⟩ := h; omega)
    | omega

/-! ## Route 2: the PikeVM terminates on programs with look-arounds -/

/-- **`pk_terminates_with_looks`**: for `Pk.lookLoopProg` programs (general, properly nested loops,
`loop1`, look-arounds with closed bodies) one PikeVM attempt with a budget of at least
`Pk.lookBound prog L = (3 ^ Pk.rankBound prog L + 1) ^ (Pk.lookDepth prog + 1)` ticks (`L` = haystack
length in bytes) ends within that many ticks — for every haystack (valid or not) and start position. -/
theorem pk_terminates_with_looks (prog : Prog) (hf : Pk.lookLoopProg prog = true)
    (hl1 : Pk.loop1Scm prog = true) (inp : Input) (fuel pos : Nat)
    (h : Pk.lookBound prog inp.bytes.size ≤ fuel) :
    (Pk.attempt prog inp fuel pos).within (Pk.lookBound prog inp.bytes.size) :=
  Pk.attempt_terminates3 prog hf hl1 inp fuel pos h

/-- Programs without look-arounds: `lookBound = 3 ^ rankBound + 1` (C05 §(d) up to the `+ 1`). -/
theorem lookBound_of_depth_zero (prog : Prog) (L : Nat) (h : Pk.lookDepth prog = 0) :
    Pk.lookBound prog L = 3 ^ Pk.rankBound prog L + 1 := by
  simp [Pk.lookBound, Pk.lookK, h]

/-! ## C05 for the backtracker -/

/-- **`C05_bound`**: every attempt of the backtracking executor on a compiler-style program and
valid input terminates: with `B = Pk.lookBound prog inp.len`, every tick budget `fuel ≥ B` suffices —
the attempt is a match or a failure reached after at most `B` ticks, never `.outOfFuel`, never an
`.error`. -/
theorem C05_bound (prog : Prog) (hs : loopsStructured prog = true) (hl : looksStructured prog = true)
    (hfull : C06.wfProgFull prog = true) (hlp : Pk.lookLoopProg prog = true) (inp : Input) (pos : Nat)
    (hv : ValidAt inp pos) :
    ∃ B, B ≤ Pk.lookBound prog inp.len ∧ ∀ fuel, B ≤ fuel →
      (Bt.attempt prog inp fuel pos).within B ∧ Bt.attempt prog inp fuel pos ≠ .outOfFuel ∧
      ∀ e, Bt.attempt prog inp fuel pos ≠ .error e := by
  refine ⟨Pk.lookBound prog inp.len, Nat.le_refl _, ?_⟩
  intro fuel hfuel
  have hw : wfProg prog = true := by
    simp only [C06.wfProgFull, Bool.and_eq_true] at hfull; exact hfull.1.1.1
  have hP := pk_terminates_with_looks prog hlp (loop1Scm_of_wfProg hw) inp (Pk.lookBound prog inp.len) pos
    (Nat.le_refl _)
  exact bt_terminates_of_pk prog hs hl hfull inp pos hv _ fuel hfuel _ hP

/-- The same for `Bt.run` from the initial configuration with independent tick budget `limit` and
structural fuel `sf`. -/
theorem C05_bound_run (prog : Prog) (hs : loopsStructured prog = true) (hl : looksStructured prog = true)
    (hfull : C06.wfProgFull prog = true) (hlp : Pk.lookLoopProg prog = true) (inp : Input) (pos : Nat)
    (hv : ValidAt inp pos) (limit sf : Nat) (h1 : Pk.lookBound prog inp.len ≤ limit)
    (h2 : Pk.lookBound prog inp.len ≤ sf) :
    (Bt.run prog inp limit sf 0 pos true (Bt.freshState prog 0) #[.exhausted] 0 0).within
      (Pk.lookBound prog inp.len) := by
  obtain ⟨B, hB, h⟩ := C05_bound prog hs hl hfull hlp inp pos hv
  have hw : wfProg prog = true := by
    simp only [C06.wfProgFull, Bool.and_eq_true] at hfull; exact hfull.1.1.1
  have hP := pk_terminates_with_looks prog hlp (loop1Scm_of_wfProg hw) inp (Pk.lookBound prog inp.len) pos
    (Nat.le_refl _)
  have hb := bt_terminates_of_pk prog hs hl hfull inp pos hv _ _ (Nat.le_refl _) _ hP
  have hne : Bt.run prog inp (Pk.lookBound prog inp.len) (Pk.lookBound prog inp.len) 0 pos true
      (Bt.freshState prog 0) #[.exhausted] 0 0 ≠ .outOfFuel := hb.2.1
  rw [Bt.run_fuel_mono prog inp h1 _ _ h2 0 pos true _ _ 0 0 hne]
  exact hb.1

/-- Above the bound the outcome does not depend on the budget: the model's answer is the answer of
the unbounded engine. -/
theorem bt_attempt_fuel_independent (prog : Prog) (hs : loopsStructured prog = true)
    (hl : looksStructured prog = true) (hfull : C06.wfProgFull prog = true)
    (hlp : Pk.lookLoopProg prog = true) (inp : Input) (pos : Nat) (hv : ValidAt inp pos) (fuel : Nat)
    (hfuel : Pk.lookBound prog inp.len ≤ fuel) :
    Bt.attempt prog inp fuel pos = Bt.attempt prog inp (Pk.lookBound prog inp.len) pos := by
  obtain ⟨B, hB, h⟩ := C05_bound prog hs hl hfull hlp inp pos hv
  have hw : wfProg prog = true := by
    simp only [C06.wfProgFull, Bool.and_eq_true] at hfull; exact hfull.1.1.1
  have hP := pk_terminates_with_looks prog hlp (loop1Scm_of_wfProg hw) inp (Pk.lookBound prog inp.len) pos
    (Nat.le_refl _)
  have hb := bt_terminates_of_pk prog hs hl hfull inp pos hv _ _ (Nat.le_refl _) _ hP
  exact Bt.attempt_fuel_mono prog inp hfuel pos hb.2.1

/-! ## Non-vacuity (dumps of the real compiler) -/

/-- `/(?:(?=(a*?)b)[ab])+c/`: a look-ahead with a lazy `loop1` inside a general loop. -/
def progLL : Prog :=
  { insns := #[.enterLoop 0 1 none true 11, .resetCaptureGroup 0, .lookahead false 0 1 9,
               .beginCaptureGroup 0, .loop1 0 none false, .byteSeq [0x61], .endCaptureGroup 0,
               .byteSeq [0x62], .goal, .byteSet [0x61, 0x62], .loopAgain 0, .byteSeq [0x63], .goal],
    brackets := #[], loops := 1, groups := 1, flags := {}, names := [], startPred := .set [0x61, 0x62] }

#guard (match parseProg "P~1~1~-~-|S~set~61~62|I~enterloop~0~1~inf~1~11|I~reset~0|I~lookahead~0~0~1~9|I~begin~0|I~loop1~0~inf~0|I~byteseq~61|I~end~0|I~byteseq~62|I~goal|I~byteset~61~62|I~loopagain~0|I~byteseq~63|I~goal|" with
  | .ok p => p == progLL | .error _ => false)

/-- "aabc" -/
def inpLL : Input := { kind := .utf8, bytes := Utf8.text [0x61, 0x61, 0x62, 0x63], unicode := false }
theorem inpLL_valid : ValidAt inpLL 0 := .utf8 _ ⟨rfl, rfl, by decide +kernel⟩ (by decide +kernel)

example : loopsStructured progLL = true ∧ looksStructured progLL = true ∧ C06.wfProgFull progLL = true ∧
    Pk.lookLoopProg progLL = true ∧ Pk.lookDepth progLL = 1 := by decide +kernel
example : loopsStructured progL1 = true ∧ looksStructured progL1 = true ∧ C06.wfProgFull progL1 = true ∧
    Pk.lookLoopProg progL1 = true ∧ Pk.lookDepth progL1 = 1 := by decide +kernel
example : loopsStructured progL2 = true ∧ looksStructured progL2 = true ∧ C06.wfProgFull progL2 = true ∧
    Pk.lookLoopProg progL2 = true ∧ Pk.lookDepth progL2 = 0 := by decide +kernel
example : Pk.lookLoopProg C02.progLookInLoop = true ∧ Pk.lookLoopProg C02.progLookBehind = true ∧
    Pk.lookLoopProg C02.progLookGroup = true ∧ Pk.lookLoopProg C06.exProg1 = true ∧
    Pk.lookLoopProg C06.exProg5 = true := by decide +kernel

/-- Instances of `C05_bound`: `/(?:(é+)\1|[a-c]{1,3}?)*d/` on "éébcd" and
`/(a+?)(b*)c|(?<=(x*))\1y{2,3}?z/` on "aabbc". -/
example : ∃ B, B ≤ Pk.lookBound progL2 inpL2.len ∧ ∀ fuel, B ≤ fuel →
    (Bt.attempt progL2 inpL2 fuel 0).within B ∧ Bt.attempt progL2 inpL2 fuel 0 ≠ .outOfFuel ∧
    ∀ e, Bt.attempt progL2 inpL2 fuel 0 ≠ .error e :=
  C05_bound progL2 (by decide +kernel) (by decide +kernel) (by decide +kernel) (by decide +kernel) inpL2 0
    inpL2_valid
example : ∃ B, B ≤ Pk.lookBound progL1 inpL1a.len ∧ ∀ fuel, B ≤ fuel →
    (Bt.attempt progL1 inpL1a fuel 0).within B ∧ Bt.attempt progL1 inpL1a fuel 0 ≠ .outOfFuel ∧
    ∀ e, Bt.attempt progL1 inpL1a fuel 0 ≠ .error e :=
  C05_bound progL1 (by decide +kernel) (by decide +kernel) (by decide +kernel) (by decide +kernel) inpL1a 0
    inpL1a_valid

example : ∃ B, B ≤ Pk.lookBound progLL inpLL.len ∧ ∀ fuel, B ≤ fuel →
    (Bt.attempt progLL inpLL fuel 0).within B ∧ Bt.attempt progLL inpLL fuel 0 ≠ .outOfFuel ∧
    ∀ e, Bt.attempt progLL inpLL fuel 0 ≠ .error e :=
  C05_bound progLL (by decide +kernel) (by decide +kernel) (by decide +kernel) (by decide +kernel) inpLL 0
    inpLL_valid

/-- The actual tick counts are tiny compared with the (astronomic) bound: 33 / 16 / 42 ticks (the
PikeVM needs 45 for the last one). -/
example : (Bt.attempt progL2 inpL2 40 0).summary = .matched 7 33 21 ∧
    (Bt.attempt progL1 inpL1a 40 0).summary = .matched 5 16 8 ∧
    (Bt.attempt progLL inpLL 100 0).summary = .matched 4 42 16 ∧
    (Pk.attempt progLL inpLL 100 0).summary = .matched 4 45 4 := by
  refine ⟨?_, ?_, ?_, ?_⟩ <;> decide +kernel

end Regress.C05Full

#print axioms Regress.C05Full.bt_terminates_of_pk
#print axioms Regress.C05Full.bt_ticks_eq_pk_simple
#print axioms Regress.C05Full.pk_terminates_with_looks
#print axioms Regress.C05Full.C05_bound
#print axioms Regress.C05Full.C05_bound_run
#print axioms Regress.C05Full.bt_attempt_fuel_independent
