import Proofs.Lemmas.SemPasses
import Proofs.Lemmas.SemLiteral
/-!
# C03 — the IR optimizer never changes what a regex matches

Statements about the exact models of `src/optimizer.rs` (`RegressModel/IR/Optimize.lean`) and the
denotational semantics of the IR (`RegressModel/IR/Sem.lean`, tied to the real engine by a
differential test on 240 070 runs).

* `ObsEq l l'` — two success lists are *observationally equal*: every continuation finds the same
  first success in both (plain equality of the lists for every pass but one: `remove_empties`
  turns `Alt(Empty, Empty)`, whose success list is `[st, st]`, into `Empty`, whose list is `[st]`).
* `WF n` — what the parser guarantees about an IR tree and the passes rely on without checking:
  `min ≤ max` for quantifiers; the group range `g0..g1` of a loop is empty iff the body contains no
  capture group; a `Loop1CharBody` has no capture group; brackets are well-formed code point sets;
  byte sequences are UTF-8 of scalar values; byte sets are ASCII.
* `PassPreserves I inp pass` — for every well-formed node `n`, walker state `w` and answer `a` of
  the pass: the node `a.result n` the pass leaves behind is well-formed, has the same number of
  capture groups and is observationally equal to `n` in the direction of travel that
  `w.in_lookbehind` denotes, on all states satisfying the invariant `I` (`StInv.top`: all states).
-/
namespace Regress.C03

open Regress.IR Regress.VM

/-- A pass preserves the semantics (and well-formedness, and the number of groups) node by node. -/
abbrev PassPreserves (I : StInv) (inp : Input) (pass : PassFn) : Prop := PassOK I inp pass

/-- Unfolded: what `PassPreserves` says. -/
theorem passPreserves_iff (I : StInv) (inp : Input) (pass : PassFn) :
    PassPreserves I inp pass ↔
      ∀ n w a, WF n → pass n w = .ok a →
        WF (a.result n) ∧ numGroups (a.result n) = numGroups n ∧
          ∀ st, I.G st → ObsEq (sem inp n (!w.inLookbehind) st) (sem inp (a.result n) (!w.inLookbehind) st) :=
  Iff.rfl

/-- Observational equality implies the same first success (the match the engine reports). -/
theorem obsEq_first {l l' : List St} (h : ObsEq l l') : l.head? = l'.head? := h.head?

/-! ## General laws -/

/-- `Cat` is sequential composition. -/
theorem semCat_append (inp : Input) (xs ys : List Node) (fwd : Bool) (st : St) :
    semCat inp (xs ++ ys) fwd st = (semCat inp xs fwd st).flatMap (fun s => semCat inp ys fwd s) :=
  IR.semCat_append inp xs ys fwd st

/-- The cursor only moves in the direction of travel: forward from inside the input, every success
of every node lies between the entry position and the end of the input. -/
theorem sem_pos_le_len (inp : Input) (n : Node) (st s : St) (h : s ∈ sem inp n true st) (hp : st.pos ≤ inp.len) :
    st.pos ≤ s.pos ∧ s.pos ≤ inp.len := IR.sem_pos_le_len inp n st s h hp

/-- … and backward, at or before the entry position. -/
theorem sem_pos_le_back (inp : Input) (n : Node) (st s : St) (h : s ∈ sem inp n false st) : s.pos ≤ st.pos :=
  IR.sem_pos_le_back inp n st s h

/-- The semantics is fuel-free; the only budget is the local iteration budget of a loop, and it is
never exhausted: every budget of at least `(min - iter) + distance-to-the-end + 2` gives the same
list (`sem` uses `min + distance + 2` at `iter = 0`). -/
theorem loop_budget_irrelevant (inp : Input) (fwd : Bool) (b : Node) (q : Quant) (g0 g1 : Nat)
    (k k' iter entry : Nat) (st : St)
    (h1 : (q.min - iter) + mu inp fwd st.pos + 2 ≤ k) (h2 : (q.min - iter) + mu inp fwd st.pos + 2 ≤ k') :
    loopIter (fun s => sem inp b fwd s) q g0 g1 k iter entry st =
      loopIter (fun s => sem inp b fwd s) q g0 g1 k' iter entry st :=
  loopIter_fuel q g0 g1 (fun s1 s2 h12 => sem_adv inp b fwd s1 s2 h12) k k' iter entry st h1 h2

/-! ## The passes, one by one -/

/-- `decat`: flattening nested `Cat`s, `Cat[] → Empty`, `Cat[x] → x`. -/
theorem decat_preserves (I : StInv) (inp : Input) : PassPreserves I inp decat := decat_ok I inp

/-- `remove_empties`: empty byte sequences, `Empty` children of a `Cat`, `Alt(Empty, Empty)`, loops
with an `Empty` body or `max = 0` (and no enclosed groups), positive look-arounds of `Empty`. -/
theorem remove_empties_preserves (I : StInv) (inp : Input) : PassPreserves I inp removeEmpties :=
  removeEmpties_ok I inp

/-- `propagate_early_fails` (on inputs whose elements are code points). -/
theorem propagate_early_fails_preserves (I : StInv) {inp : Input} (hin : InputOK inp) :
    PassPreserves I inp propagateEarlyFails := propagateEarlyFails_ok I hin

/-- `simplify_brackets`: small bracket → `CharSet`; inverting the set and flipping `invert`. -/
theorem simplify_brackets_preserves (I : StInv) {inp : Input} (hin : InputOK inp) :
    PassPreserves I inp simplifyBrackets := simplifyBrackets_ok I hin

/-- `promote_1char_loops`: `Loop` over a one-char body ≡ `Loop1CharBody`. -/
theorem promote_1char_loops_preserves (I : StInv) (inp : Input) : PassPreserves I inp promote1CharLoops :=
  promote1CharLoops_ok I inp

/-- `unroll_loops`: `Loop{m,M} b ≡ b^m ++ Loop{0,M−m} b`. -/
theorem unroll_loops_preserves (I : StInv) (inp : Input) : PassPreserves I inp unrollLoops :=
  unrollLoops_ok I inp

/-! ### The node-level equations behind them (plain equalities of success lists) -/

/-- Flattening. -/
theorem decat_sem (inp : Input) (fwd : Bool) (nodes : List Node) (st : St) :
    sem inp (.cat (decatLoop nodes [])) fwd st = sem inp (.cat nodes) fwd st := by
  simp [sem, decatLoop_sem, semCat]

/-- Dropping the `Empty` children of a `Cat`. -/
theorem remove_empties_cat_sem (inp : Input) (fwd : Bool) (nodes : List Node) (st : St) :
    sem inp (.cat (nodes.filter (fun nn => !nn.isEmpty))) fwd st = sem inp (.cat nodes) fwd st := by
  simp only [sem]; exact filter_nonempty_sem inp fwd nodes st

/-- A loop over `Empty` without enclosed groups matches the empty string once, whatever `min`. -/
theorem loop_empty_sem (inp : Input) (q : Quant) (g0 g1 : Nat) (fwd : Bool) (st : St)
    (hq : quantOk q = true) (hg : g1 ≤ g0) : sem inp (.loop .empty q g0 g1) fwd st = sem inp .empty fwd st := by
  rw [sem_loop_empty inp q g0 g1 fwd st hq hg, sem_empty]

/-- A node for which `match_always_fails` holds has no success. -/
theorem always_fails_sem {inp : Input} (hin : InputOK inp) {n : Node} (h : n.matchAlwaysFails = true)
    (fwd : Bool) (st : St) : sem inp n fwd st = [] := alwaysFails_sem hin h fwd st

/-- A `Cat` with a child that has no success has no success. -/
theorem cat_fails_sem {inp : Input} {fwd : Bool} (ns : List Node)
    (h : ∃ n ∈ ns, ∀ st, sem inp n fwd st = []) (st : St) : sem inp (.cat ns) fwd st = [] := by
  simp only [sem]; exact semCat_fails ns h st

/-- `Loop` over a body with at most one, cursor-moving, success ≡ `Loop1CharBody` (same budget). -/
theorem loop_eq_loop1 (inp : Input) (fwd : Bool) {b : Node} (h : b.matchesExactlyOneChar = true) (q : Quant)
    (g0 g1 : Nat) (hg : g1 ≤ g0) (st : St) : sem inp (.loop b q g0 g1) fwd st = sem inp (.loop1 b q) fwd st := by
  simp only [sem]
  exact loopIter_eq_loop1Iter (oneStep_of_matchesExactlyOneChar inp fwd h) q g0 g1 hg _ _ _ _ (fun hh => by simp at hh)

/-- Unrolling: `Loop{m,M} b ≡ b^m ++ Loop{0,M−m} b` for a loop that resets no group. -/
theorem unroll_sem (inp : Input) (fwd : Bool) (b : Node) (q : Quant) (g0 g1 : Nat) (hq : quantOk q = true)
    (hg : g1 ≤ g0) (st : St) :
    sem inp (.loop b q g0 g1) fwd st =
      sem inp (.cat (List.replicate q.min b ++ [.loop b (unrolledQuant q) g0 g1])) fwd st := by
  simp only [sem]; exact sem_loop_unrolled inp fwd b q g0 g1 hq hg st

/-- `try_duplicate` returns a copy (and only of group-free nodes). -/
theorem try_duplicate_copy (n n' : Node) (d : Nat) (h : Node.tryDuplicate d n = .ok (some n')) :
    n' = n ∧ numGroups n = 0 := tryDuplicate_eq n d n' h

/-! ## Congruence: lifting a node-local rewrite through `walk_mut` and `run_to_fixpoint` -/

/-- `sem` of a node depends on its children only through their `sem`. -/
theorem sem_congr_cat {I : StInv} {inp : Input} {fwd : Bool} {ns ns' : List Node} (h : ListEq I inp fwd ns ns') :
    NodeEq I inp fwd (.cat ns) (.cat ns') := NodeEq.cat h
theorem sem_congr_alt {I : StInv} {inp : Input} {fwd : Bool} {l l' r r' : Node} (h1 : NodeEq I inp fwd l l')
    (h2 : NodeEq I inp fwd r r') : NodeEq I inp fwd (.alt l r) (.alt l' r') := NodeEq.alt h1 h2
theorem sem_congr_group {I : StInv} {inp : Input} {fwd : Bool} {c c' : Node} (id : Nat) (name : Option (List Nat))
    (h : NodeEq I inp fwd c c') : NodeEq I inp fwd (.group id name c) (.group id name c') := NodeEq.group id name h
theorem sem_congr_look {I : StInv} {inp : Input} {fwd : Bool} {c c' : Node} (negate backwards : Bool) (sg eg : Nat)
    (h : NodeEq I inp (!backwards) c c') :
    NodeEq I inp fwd (.look negate backwards sg eg c) (.look negate backwards sg eg c') :=
  NodeEq.look negate backwards sg eg h
theorem sem_congr_loop {I : StInv} {inp : Input} {fwd : Bool} {b b' : Node} (q : Quant) (g0 g1 : Nat)
    (h : NodeEq I inp fwd b b') (hp : Pres I inp fwd b) :
    NodeEq I inp fwd (.loop b q g0 g1) (.loop b' q g0 g1) := NodeEq.loop q g0 g1 h hp
theorem sem_congr_loop1 {I : StInv} {inp : Input} {fwd : Bool} {b b' : Node} (q : Quant)
    (h : NodeEq I inp fwd b b') (hp : Pres I inp fwd b) : NodeEq I inp fwd (.loop1 b q) (.loop1 b' q) :=
  NodeEq.loop1 q h hp

/-- One post-order walk of a semantics-preserving pass (`Pass::run_postorder`) preserves the
semantics of the tree (forward, i.e. of the whole regex), its well-formedness and its group count. -/
theorem run_postorder_preserves {I : StInv} {inp : Input} {pass : PassFn} (hf : PassPreserves I inp pass)
    (hP : ∀ fwd n, WF n → Pres I inp fwd n) {unicode : Bool} {n n' : Node} {c c' : Bool}
    (h : runPostorder pass unicode n c = .ok (n', c')) (hw : WF n) :
    WF n' ∧ numGroups n' = numGroups n ∧ NodeEq I inp true n n' := by
  simpa [TreeOK, WalkOK] using runPostorder_ok hf hP h hw

/-- … and so does `Pass::run_to_fixpoint`. -/
theorem run_to_fixpoint_preserves {I : StInv} {inp : Input} {pass : PassFn} (hf : PassPreserves I inp pass)
    (hP : ∀ fwd n, WF n → Pres I inp fwd n) {unicode : Bool} (fuel : Nat) {n n' : Node} {c' : Bool}
    (h : runToFixpoint pass unicode fuel n = .ok (n', c')) (hw : WF n) :
    WF n' ∧ numGroups n' = numGroups n ∧ NodeEq I inp true n n' := by
  simpa [TreeOK, WalkOK] using runToFixpoint_ok hf hP fuel h hw

/-- The trivial invariant is preserved by every node. -/
theorem pres_top (inp : Input) (fwd : Bool) (n : Node) : Pres StInv.top inp fwd n := fun _ _ _ _ => trivial

/-! ## `form_literal_bytes` and the whole pipeline (UTF-8 text) -/

/-- Merging adjacent byte sequences (any input, any state): the sequence executed first, then the
other one, is the concatenation — in text order, i.e. re-reversed inside a look-behind. -/
theorem byteSeq_merge_sem (inp : Input) (fwd : Bool) (x y : List Nat) (st : St) :
    sem inp (.cat [.byteSeq x, .byteSeq y]) fwd st =
      sem inp (.byteSeq (if fwd then x ++ y else y ++ x)) fwd st := by
  simp only [sem, semCat_cons, semCat, flatMap_singleton']
  exact sem_byteSeq_seq inp fwd x y st

/-- `Char c ≡ ByteSequence (utf8 c)` at a char boundary of UTF-8 text, in both directions. -/
theorem char_byteSeq_sem {inp : Input} {cs : List Nat} (ht : Utf8Text inp cs) {c : Nat} (hc : Utf8.isScalar c = true)
    (fwd : Bool) {st : St} (hb : AtBoundary cs st.pos) :
    sem inp (.char c) fwd st = sem inp (.byteSeq (Utf8.encode c)) fwd st := char_eq_byteSeq ht hc fwd hb

/-- `CharSet` of ASCII chars `≡ ByteSet` at a char boundary of UTF-8 text. -/
theorem charSet_byteSet_sem {inp : Input} {cs : List Nat} (ht : Utf8Text inp cs) {chars : List Nat}
    (hall : chars.all (fun c => decide (c ≤ 0x7F)) = true) (fwd : Bool) {st : St} (hb : AtBoundary cs st.pos) :
    sem inp (.charSet chars) fwd st = sem inp (.byteSet chars) fwd st := charSet_eq_byteSet ht hall fwd hb

/-- Every well-formed node keeps every offset of the state on char boundaries. -/
theorem sem_keeps_boundaries {inp : Input} {cs : List Nat} (ht : Utf8Text inp cs) (n : Node) (fwd : Bool)
    (st s : St) (hw : WF n) (hg : Good cs st) (h : s ∈ sem inp n fwd st) : Good cs s := sem_good ht n fwd st s hw hg h

/-- `form_literal_bytes` (on UTF-8 text, on states whose offsets are char boundaries). -/
theorem form_literal_bytes_preserves {inp : Input} {cs : List Nat} (ht : Utf8Text inp cs) :
    PassPreserves (utf8Inv cs) inp formLiteralBytes := formLiteralBytes_ok ht

/-- All seven passes. -/
theorem passes_preserve {inp : Input} {cs : List Nat} (ht : Utf8Text inp cs) : PassesOK (utf8Inv cs) inp where
  simplifyBrackets := simplifyBrackets_ok _ ht.inputOK
  decat := decat_ok _ _
  unrollLoops := unrollLoops_ok _ _
  promote1CharLoops := promote1CharLoops_ok _ _
  formLiteralBytes := formLiteralBytes_ok ht
  removeEmpties := removeEmpties_ok _ _
  propagateEarlyFails := propagateEarlyFails_ok _ ht.inputOK

/-- **`optimizer::optimize` preserves the semantics.** If the model of `optimize` turns the
well-formed IR `r` into `r'`, then `r'` is well-formed, has the same capture groups, and on every
UTF-8 input, from every state whose offsets are char boundaries, has observationally the same
successes (travelling forward: the top level of a regex). -/
theorem optimize_preserves {inp : Input} {cs : List Nat} (ht : Utf8Text inp cs) {fuel : Nat} {r r' : Regex}
    (h : optimize fuel r = .ok r') (hw : WF r.node) :
    WF r'.node ∧ numGroups r'.node = numGroups r.node ∧
      ∀ st, Good cs st → ObsEq (sem inp r.node true st) (sem inp r'.node true st) := by
  have := optimize_ok (passes_preserve ht) (fun fwd n hwn => pres_utf8 ht fwd n hwn) h hw
  exact ⟨this.1, this.2.1, fun st hg => this.2.2 st hg⟩

theorem good_initSt (cs : List Nat) (n : Node) {p : Nat} (hb : AtBoundary cs p) : Good cs (initSt n p) := by
  refine ⟨hb, fun c hc => ?_⟩
  have : c = (none, none) := List.eq_of_mem_replicate hc
  subst this
  exact ⟨fun a ha => (by cases ha), fun b hb => (by cases hb)⟩

/-- **C03.** The optimized IR and the unoptimized IR give the same result of a match attempt at
every char boundary: same end position, same captures. -/
theorem optimize_same_attempt {inp : Input} {cs : List Nat} (ht : Utf8Text inp cs) {fuel : Nat} {r r' : Regex}
    (h : optimize fuel r = .ok r') (hw : WF r.node) {p : Nat} (hb : AtBoundary cs p) :
    firstMatch inp r'.node p = firstMatch inp r.node p := by
  obtain ⟨_, hg, heq⟩ := optimize_preserves ht h hw
  unfold firstMatch
  have e : initSt r'.node p = initSt r.node p := by simp [initSt, hg]
  rw [e]
  exact (heq _ (good_initSt cs r.node hb)).head?.symm

/-- **C03, the search.** … and hence the same leftmost match from every start offset. -/
theorem optimize_same_match {inp : Input} {cs : List Nat} (ht : Utf8Text inp cs) {fuel : Nat} {r r' : Regex}
    (h : optimize fuel r = .ok r') (hw : WF r.node) (start : Nat) :
    semFind inp r'.node start = semFind inp r.node start := by
  unfold semFind
  generalize inp.len + 1 - start = k
  induction k generalizing start with
  | zero => rfl
  | succ k ih =>
    simp only [semFindFrom]
    split
    · rfl
    · rename_i hle
      split
      · rename_i hbd
        have hb : AtBoundary cs start := (atBoundary_iff ht (by omega)).2 hbd
        rw [optimize_same_attempt ht h hw hb, ih]
      · exact ih _

/-! ## Non-vacuity -/

/-- `/(?:ab){2,3}/`-like IR: a well-formed loop that `unroll_loops` rewrites. -/
example : WF (.loop (.cat [.char 0x61, .char 0x62]) { min := 2, max := some 3, greedy := true } 0 0) := by
  simp [WF, WFList, quantOk, numGroups, numGroupsList]

example : unrollLoops (.loop (.cat [.char 0x61, .char 0x62]) { min := 2, max := some 3, greedy := true } 0 0)
    (Walk.new false) =
    .ok (.modified (.cat [.cat [.char 0x61, .char 0x62], .cat [.char 0x61, .char 0x62],
      .loop (.cat [.char 0x61, .char 0x62]) { min := 0, max := some 1, greedy := true } 0 0])) := by
  rfl

example : decat (.cat [.cat [.char 0x61], .char 0x62]) (Walk.new false) =
    .ok (.replace (.cat [.char 0x61, .char 0x62])) := by rfl

example : removeEmpties (.alt .empty .empty) (Walk.new false) = .ok .remove := by rfl

example : promote1CharLoops (.loop (.char 0x61) { min := 0, max := none, greedy := true } 0 0) (Walk.new false) =
    .ok (.modified (.loop1 (.char 0x61) { min := 0, max := none, greedy := true })) := by rfl

/-- `/(?:a|[bc]){2,3}é/`: a well-formed IR with a bracket, a loop to unroll and a non-ASCII literal
(the model of `optimize` turns it into
`(cat (cat (alt (bytes 61) (byteset 62 63)) (alt …) (loop 0 1 1 0 0 (alt …))) (bytes c3 a9) (goal))`). -/
def exRegex : Regex :=
  { node := .cat [.loop (.alt (.char 0x61) (.bracket ⟨false, [(0x62, 0x63)]⟩)) ⟨2, some 3, true⟩ 0 0, .char 0xE9, .goal],
    flags := {} }

example : WF exRegex.node := by
  simp only [exRegex, WF, WFList, quantOk, numGroups, and_true, true_and]
  refine ⟨by decide, by decide, by decide⟩

/-- The whole pipeline on `/a/` (kernel evaluation of the model of `optimize` is slow on larger trees). -/
example : optimize 2 { node := .cat [.char 0x61, .goal], flags := {} } =
    .ok { node := .cat [.byteSeq [0x61], .goal], flags := {} } := by
  rfl

example : Utf8Text { kind := .utf8, bytes := Utf8.text [0x61, 0xE9], unicode := false } [0x61, 0xE9] :=
  ⟨rfl, rfl, by decide⟩

end Regress.C03

#print axioms Regress.C03.decat_preserves
#print axioms Regress.C03.remove_empties_preserves
#print axioms Regress.C03.propagate_early_fails_preserves
#print axioms Regress.C03.simplify_brackets_preserves
#print axioms Regress.C03.promote_1char_loops_preserves
#print axioms Regress.C03.unroll_loops_preserves
#print axioms Regress.C03.form_literal_bytes_preserves
#print axioms Regress.C03.optimize_preserves
#print axioms Regress.C03.optimize_same_attempt
#print axioms Regress.C03.optimize_same_match
#print axioms Regress.C03.run_to_fixpoint_preserves
#print axioms Regress.C03.loop_budget_irrelevant
#print axioms Regress.C03.sem_pos_le_len
