import Proofs.Lemmas.EscapeParseSide
import Proofs.EndToEnd
/-!
# C18 (second half) — `escape(s)` is the literal `s`

`Proofs/C18.lean` is about `regress::escape` alone (it only inserts backslashes; every one of the 14
syntax characters `\ ^ $ . | ? * + ( ) [ ] { }` gets one).  This file is about what the rest of the
crate does with the result:

1. **`escape_parses_literal`** — for every `s : List Nat` (any code points, in particular every
   sequence of Unicode scalar values) and **every** flag record `fl` (all `2^6` combinations of
   `icase, multiline, dot_all, no_opt, unicode, unicode_sets`), the parser model
   (`Parse.parse` = `parse::try_parse`) run on the chars of `escape(s)` returns `Ok`, and the IR is
   exactly the literal IR of `s`: `make_cat([make_cat([char_node(c) | c ∈ s]), Goal])` — no capture
   group, no named group, no loop, no class, no anchor.
   (The parser reads `pattern.chars().map(u32::from)`; `escapeChars s` is that sequence for the
   `String` `escape(s)`, `Api.escape s = Utf8.encodeAll (escapeChars s)` are its bytes.)
2. **`escape_sem_literal`** — the IR semantics of that tree on a UTF-8 haystack, anchored at the
   `k`-th char boundary: it has a first match iff the next `|s|` scalar values of the haystack equal
   those of `s` up to the engine's canonicalization (`canon`: identity without `i`; with `i`
   `fold_code_point`, whose classes are those of C10: `expand_code_point`, Unicode 17 simple case
   folding under `u`/`v`); the match ends right behind these `|s|` chars and has no captures.
   `escape_sem_literal_exact`: without `i` this is "the UTF-8 bytes of `s` occur at `p`".
3. **Compiled program** — via `Proofs/EndToEnd.lean` (C07 + C03 + Keystone + C02Full):
   `escape_compiles` (`Regex::with_flags(&escape(s), f)` returns `Ok` for every `f`),
   `escape_matches_literal_pk`, `escape_matches_literal_pk_total_partial`,
   `escape_matches_literal_bt_partial`: an attempt of the PikeVM / the backtracking executor on the
   compiled (optimized or not) program at a char boundary answers exactly as in 2.  The IR side
   conditions of the keystone lemma (`WF`, `rootOK`, `maxOK`, no loops, no groups) are *proved* for the
   literal shape (`literal_side_conditions`); what is kept (suffix `_partial`) are the decidable
   structural checks `EndToEnd.ProgPkOK`/`ProgOK` on the emitted program, exactly as in
   `Proofs/EndToEnd.lean`.

Helper lemmas: `Proofs/Lemmas/EscapeParse.lean` (the descent, step by step),
`Proofs/Lemmas/EscapeParseSem.lean` (semantics), `Proofs/Lemmas/EscapeParseSide.lean` (side conditions).

Which characters `escape` escapes vs. what the parser accepts: `escape` escapes exactly the 14
`SyntaxCharacter`s.  `consume_character_escape` accepts exactly these 14 and `/` as identity escapes
under `u`/`v`, so no escaped string is rejected in any mode (`characterEscape_special`).  Everything
else (`-`, `#`, `,`, `=`, `:`, `<`, `>`, `!`, `/`, whitespace, digits, letters, non-ASCII) is left
bare by `escape` and is an ordinary pattern character outside a class in every mode
(`consumeAtom_plain`: none of the special arms of `consume_term` fires for a non-syntax character).
No discrepancy found.
-/
namespace Regress.C18Full
open Regress Regress.IR Regress.VM Regress.Parse Regress.Api Regress.EscapeParse
open Regress.Keystone Regress.C07 Regress.E2E Regress.EndToEnd

/-! ## 1. The parser -/

/-- **`escape_parses_literal`.**  For every `s` and all flags, parsing `escape(s)` succeeds and
yields the literal IR of `s` under the flags the parser works with (`normFlags`: `unicode_sets`
forces `unicode`). -/
theorem escape_parses_literal (s : List Nat) (fl : IR.Flags) :
    Parse.parse (escapeChars s) fl = .ok { node := litNode (normFlags fl) s, flags := normFlags fl } :=
  parse_escape s fl

/-- The three shapes `make_cat` produces. -/
theorem literal_shape (fl : IR.Flags) :
    litNode fl [] = .cat [.empty, .goal] ∧
    (∀ c, litNode fl [c] = .cat [litChar fl c, .goal]) ∧
    (∀ c d s, litNode fl (c :: d :: s) =
      .cat [.cat (litChar fl c :: litChar fl d :: s.map (litChar fl)), .goal]) :=
  ⟨rfl, fun _ => rfl, fun _ _ _ => rfl⟩

/-- `char_node`: without `i` the char itself; with `i` its case class (C10: the code points with the
same `fold_code_point`), as a `Char` when the class is a singleton and a `CharSet` otherwise. -/
theorem literal_char (fl : IR.Flags) (c : Nat) :
    (fl.icase = false → litChar fl c = .char c) ∧
    (fl.icase = true →
      (∃ x, Fold.expandCodePoint c true fl.unicode = [x] ∧ litChar fl c = .char x) ∨
      ((Fold.expandCodePoint c true fl.unicode).length ≠ 1 ∧
        litChar fl c = .charSet (Fold.expandCodePoint c true fl.unicode))) := by
  constructor
  · intro h; simp [litChar, h]
  · intro h
    simp only [litChar, h, if_true]
    generalize Fold.expandCodePoint c true fl.unicode = cls
    match cls with
    | [] => right; simp
    | [x] => left; exact ⟨x, rfl, rfl⟩
    | _ :: _ :: _ => right; simp

/-- The parsed tree has zero capture groups (hence no named group), zero loops, and satisfies every
IR side condition of the keystone / end-to-end theorems. -/
theorem literal_side_conditions (fl : IR.Flags) (s : List Nat) :
    numGroups (litNode fl s) = 0 ∧ numLoops (litNode fl s) = 0 ∧ WF (litNode fl s) ∧
    rootOK (litNode fl s) = true ∧ maxOK (litNode fl s) = true :=
  ⟨numGroups_litNode fl s, numLoops_litNode fl s, wf_litNode fl s, rootOK_litNode fl s, maxOK_litNode fl s⟩

/-! ## 2. The IR semantics -/

/-- "The haystack `cs` reads `s` at char index `k`, up to `canon fl`". -/
def LitAt (fl : IR.Flags) (s cs : List Nat) (k : Nat) : Prop :=
  k + s.length ≤ cs.length ∧ ((cs.drop k).take s.length).map (canon fl) = s.map (canon fl)

instance (fl : IR.Flags) (s cs : List Nat) (k : Nat) : Decidable (LitAt fl s cs k) := by
  unfold LitAt; infer_instance

theorem litMatch_iff_litAt (fl : IR.Flags) (s cs : List Nat) {k : Nat} (hk : k ≤ cs.length) :
    litMatch fl s (cs.drop k) = true ↔ LitAt fl s cs k := by
  rw [litMatch_iff, LitAt, List.length_drop]
  constructor
  · rintro ⟨h1, h2⟩; exact ⟨by omega, h2⟩
  · rintro ⟨h1, h2⟩; exact ⟨by omega, h2⟩

/-- Without `i`: `s` occurs verbatim. -/
theorem litAt_exact {fl : IR.Flags} (hi : fl.icase = false) (s cs : List Nat) {k : Nat}
    (hk : k ≤ cs.length) : LitAt fl s cs k ↔ s <+: cs.drop k := by
  rw [← litMatch_iff_litAt fl s cs hk, litMatch_exact hi]

/-- With `i`: char by char, the haystack char lies in the case class `expand_code_point` of the
pattern char (C10: `expand_iff`, `unfold_iff`, `unfold_upper_iff`). -/
theorem litAt_icase {fl : IR.Flags} (hi : fl.icase = true) (s cs : List Nat) {k : Nat}
    (hk : k ≤ cs.length) :
    LitAt fl s cs k ↔ k + s.length ≤ cs.length ∧
      ∀ i (h : i < s.length) (h' : k + i < cs.length),
        cs[k + i] ∈ Fold.expandCodePoint s[i] true fl.unicode := by
  rw [← litMatch_iff_litAt fl s cs hk, litMatch_icase_iff hi]
  have hl : (cs.drop k).length = cs.length - k := List.length_drop
  constructor
  · rintro ⟨h1, h2⟩
    refine ⟨by omega, fun i h h' => ?_⟩
    have := h2 i h (by omega)
    rwa [List.getElem_drop] at this
  · rintro ⟨h1, h2⟩
    refine ⟨by omega, fun i h h' => ?_⟩
    rw [List.getElem_drop]
    exact h2 i h (by omega)

theorem map_eq_map_of_kernel {α β γ : Type} {f : α → β} {g : α → γ}
    (h : ∀ a b, f a = f b ↔ g a = g b) :
    ∀ (l₁ l₂ : List α), l₁.map f = l₂.map f ↔ l₁.map g = l₂.map g
  | [], [] => by simp
  | [], _ :: _ => by simp
  | _ :: _, [] => by simp
  | a :: l₁, b :: l₂ => by
    simp only [List.map_cons, List.cons.injEq, h a b, map_eq_map_of_kernel h l₁ l₂]

/-- With `i` under `u`/`v`: equality of the Unicode 17 simple-case-folding classes (C10,
`fold_is_scf17`; `scfRep` is the class representative observed in ICU 78.2). -/
theorem litAt_unicode_scf17 {fl : IR.Flags} (hi : fl.icase = true) (hu : fl.unicode = true)
    (s cs : List Nat) (k : Nat) :
    LitAt fl s cs k ↔ k + s.length ≤ cs.length ∧
      ((cs.drop k).take s.length).map C10.scfRep = s.map C10.scfRep := by
  have hc : canon fl = Fold.fold := by funext d; simp [canon, hi, hu, Fold.foldCodePoint]
  rw [LitAt, hc, map_eq_map_of_kernel (fun a b => C10.fold_is_scf17 a b)]

/-- **`escape_sem_literal`.**  Let `re` be what the parser returns for `escape(s)` under flags `fl`.
On a UTF-8 haystack `inp` (scalar values `cs`), anchored at the `k`-th char boundary `p = off cs k`:
if the haystack reads `s` there up to canonicalization, the first match of `re.node` ends behind
the `|s|` chars read — at `p +` their byte length — with an empty capture table; otherwise there is
no match at `p`.  (`inp.unicode` plays no role: the case classes were expanded at parse time.) -/
theorem escape_sem_literal {inp : Input} {cs : List Nat} (ht : Utf8Text inp cs) (s : List Nat)
    (fl : IR.Flags) {re : Regex} (hp : Parse.parse (escapeChars s) fl = .ok re) {k : Nat}
    (hk : k ≤ cs.length) :
    (LitAt re.flags s cs k → firstMatch inp re.node (Utf8.off cs k) =
      some { pos := Utf8.off cs k + (Utf8.encodeAll ((cs.drop k).take s.length)).length, caps := [] }) ∧
    (¬ LitAt re.flags s cs k → firstMatch inp re.node (Utf8.off cs k) = none) := by
  rw [escape_parses_literal] at hp
  cases hp
  simp only
  rw [firstMatch_litNode ht _ s hk]
  constructor
  · intro h
    have hl : ((cs.drop k).take s.length).length = s.length := by
      rw [List.length_take, List.length_drop]; have := h.1; omega
    have := Utf8.off_add_of_prefix (cs := cs) (k := k) (List.take_prefix s.length (cs.drop k))
    rw [hl] at this
    rw [if_pos ((litMatch_iff_litAt _ s cs hk).2 h), this]
  · intro h
    rw [if_neg (fun hm => h ((litMatch_iff_litAt _ s cs hk).1 hm))]

/-- The same as an equivalence: there is a match at `p` iff the haystack reads `s` there. -/
theorem escape_sem_literal_iff {inp : Input} {cs : List Nat} (ht : Utf8Text inp cs) (s : List Nat)
    (fl : IR.Flags) {re : Regex} (hp : Parse.parse (escapeChars s) fl = .ok re) {k : Nat}
    (hk : k ≤ cs.length) :
    (∃ σ, firstMatch inp re.node (Utf8.off cs k) = some σ) ↔ LitAt re.flags s cs k := by
  have h := escape_sem_literal ht s fl hp hk
  constructor
  · rintro ⟨σ, hσ⟩
    exact Classical.byContradiction fun hn => by rw [h.2 hn] at hσ; cases hσ
  · intro hl; exact ⟨_, h.1 hl⟩

/-- **Without `i`, in bytes.**  The first match of the parsed tree at a char boundary `p` is
`match_bytes(p, bytes of s)`: it exists iff the UTF-8 bytes of `s` occur at `p`, and ends at
`p + |bytes of s|`. -/
theorem escape_sem_literal_exact {inp : Input} {cs : List Nat} (ht : Utf8Text inp cs) {s : List Nat}
    (hs : Utf8.AllScalar s) {fl : IR.Flags} (hi : fl.icase = false) {re : Regex}
    (hp : Parse.parse (escapeChars s) fl = .ok re) {k : Nat} (hk : k ≤ cs.length) :
    firstMatch inp re.node (Utf8.off cs k) =
      (inp.matchBytes true (Utf8.off cs k) (Utf8.encodeAll s)).map (fun e => { pos := e, caps := [] }) ∧
    ∀ e, inp.matchBytes true (Utf8.off cs k) (Utf8.encodeAll s) = some e →
      e = Utf8.off cs k + (Utf8.encodeAll s).length := by
  rw [escape_parses_literal] at hp
  cases hp
  have hi' : (normFlags fl).icase = false := by unfold normFlags; split <;> simp [hi]
  refine ⟨firstMatch_litNode_bytes ht hi' hs hk, fun e he => ?_⟩
  simp only [Input.matchBytes, ht.bytes] at he
  obtain ⟨hpre, rfl⟩ := (Utf8.matchBytes_iff_chars ht.scalar hs k e).1 he
  exact Utf8.off_add_of_prefix hpre

/-! ## 3. The compiled program -/

theorem mem_escapeChars {s : List Nat} {c : Nat} (h : c ∈ escapeChars s) : c = 0x5C ∨ c ∈ s := by
  induction s with
  | nil => simp [escapeChars] at h
  | cons d ds ih =>
    simp only [escapeChars] at h
    split at h
    · simp only [List.mem_cons] at h ⊢
      rcases h with h | h | h
      · exact .inl h
      · exact .inr (.inl h)
      · exact (ih h).imp id .inr
    · simp only [List.mem_cons] at h ⊢
      rcases h with h | h
      · exact .inr (.inl h)
      · exact (ih h).imp id .inr

theorem escapeChars_bound {s : List Nat} (hs : ∀ c ∈ s, c ≤ 0x10FFFF) :
    ∀ c ∈ escapeChars s, c ≤ 0x10FFFF := by
  intro c hc
  rcases mem_escapeChars hc with rfl | h
  · decide
  · exact hs c h

/-- **`escape(s)` compiles**: `Regex::with_flags(&escape(s), f)` (parse, optimize unless `no_opt`,
emit) returns `Ok` for every string and every flag record — the same program for every sufficient
fuel of the optimizer model. -/
theorem escape_compiles (s : List Nat) (hs : ∀ c ∈ s, c ≤ 0x10FFFF) (fl : IR.Flags) :
    ∃ prog, ∀ fuel, compileFuel (escapeChars s) fl ≤ fuel →
      compile fuel (escapeChars s) fl = .ok prog := by
  have hp := escape_parses_literal s fl
  rcases compile_total (escapeChars s) fl (escapeChars_bound hs) with h | ⟨msg, h⟩ | ⟨msg, h⟩
  · exact h
  · have := h 0; simp only [compile, hp] at this; split at this <;> (try split at this) <;> cases this
  · have := h 0; simp only [compile, hp] at this; split at this <;> (try split at this) <;> cases this

/-- The answer of the IR semantics of the literal, as a function of the haystack. -/
def literalAnswer (fl : IR.Flags) (s cs : List Nat) (k : Nat) : Option St :=
  if LitAt (normFlags fl) s cs k then
    some { pos := Utf8.off cs k + (Utf8.encodeAll ((cs.drop k).take s.length)).length, caps := [] }
  else none

theorem firstMatch_eq_literalAnswer {inp : Input} {cs : List Nat} (ht : Utf8Text inp cs) (s : List Nat)
    (fl : IR.Flags) {k : Nat} (hk : k ≤ cs.length) :
    firstMatch inp (litNode (normFlags fl) s) (Utf8.off cs k) = literalAnswer fl s cs k := by
  have h := escape_sem_literal ht s fl (escape_parses_literal s fl) hk
  unfold literalAnswer
  split
  · next hl => exact h.1 hl
  · next hl => exact h.2 hl

/-- **The PikeVM on the compiled `escape(s)`** (proviso: the run is `Fine`, i.e. ends neither out
of its tick budget nor in an `.error`).  For every program `prog` the pipeline returns for
`escape(s)` under `fl` (optimized or not), every UTF-8 haystack with the regex's `unicode` flag and
every char boundary `p = off cs k`: the attempt fails iff the haystack does not read `s` at `p`, and
otherwise matches, ending behind the `|s|` chars read, with an empty capture table. -/
theorem escape_matches_literal_pk {s : List Nat} (hs : ∀ c ∈ s, c ≤ 0x10FFFF) {fl : IR.Flags}
    {prog : Prog} {ofuel : Nat} (hc : compile ofuel (escapeChars s) fl = .ok prog)
    {inp : Input} {cs : List Nat} (ht : Utf8Text inp cs) (hu : prog.flags.unicode = inp.unicode)
    {k : Nat} (hk : k ≤ cs.length) (fuel : Nat) (hf : Fine (Pk.attempt prog inp fuel (Utf8.off cs k))) :
    PkAgrees (Pk.attempt prog inp fuel (Utf8.off cs k)) (literalAnswer fl s cs k) := by
  have := compile_correct_pk_partial (escapeChars_bound hs) (escape_parses_literal s fl) hc
    (maxOK_litNode _ s) ht hu ⟨k, hk, rfl⟩ fuel hf
  rwa [firstMatch_eq_literalAnswer ht s fl hk] at this

/-- … without the proviso, for programs passing the structural checks of C05Full/C06
(`ProgPkOK`, decidable, kept as a hypothesis as in `Proofs/EndToEnd.lean`) and budgets
`≥ Pk.lookBound`.
Full statement (not proved here): the same without `hok`, i.e. `ProgPkOK prog` for every program
emitted for a literal IR. -/
theorem escape_matches_literal_pk_total_partial {s : List Nat} (hs : ∀ c ∈ s, c ≤ 0x10FFFF)
    {fl : IR.Flags} {prog : Prog} {ofuel : Nat} (hc : compile ofuel (escapeChars s) fl = .ok prog)
    (hok : ProgPkOK prog = true)
    {inp : Input} {cs : List Nat} (ht : Utf8Text inp cs) (hu : prog.flags.unicode = inp.unicode)
    {k : Nat} (hk : k ≤ cs.length) (fuel : Nat) (hfuel : Pk.lookBound prog inp.len ≤ fuel) :
    PkAgrees (Pk.attempt prog inp fuel (Utf8.off cs k)) (literalAnswer fl s cs k) :=
  escape_matches_literal_pk hs hc ht hu hk fuel (pk_fine hok ht ⟨k, hk, rfl⟩ fuel hfuel)

/-- **The backtracking executor on the compiled `escape(s)`** (kept: `ProgOK prog`, the decidable
structural hypotheses of C02Full/C05Full/C06 on the emitted program).
Full statement (not proved here): the same without `hok`. -/
theorem escape_matches_literal_bt_partial {s : List Nat} (hs : ∀ c ∈ s, c ≤ 0x10FFFF)
    {fl : IR.Flags} {prog : Prog} {ofuel : Nat} (hc : compile ofuel (escapeChars s) fl = .ok prog)
    (hok : ProgOK prog = true)
    {inp : Input} {cs : List Nat} (ht : Utf8Text inp cs) (hu : prog.flags.unicode = inp.unicode)
    {k : Nat} (hk : k ≤ cs.length) (fuel : Nat) (hfuel : Pk.lookBound prog inp.len ≤ fuel) :
    BtAgrees (Bt.attempt prog inp fuel (Utf8.off cs k)) (literalAnswer fl s cs k) := by
  have := compile_correct_bt_partial (escapeChars_bound hs) (escape_parses_literal s fl) hc
    (maxOK_litNode _ s) hok ht hu ⟨k, hk, rfl⟩ fuel hfuel
  rwa [firstMatch_eq_literalAnswer ht s fl hk] at this

/-- Without optimization (`no_opt`) the keystone lemma applies to the literal tree directly: all its
IR side conditions are theorems. -/
theorem escape_keystone_noopt {s : List Nat} {fl : IR.Flags} {prog : Prog}
    (he : emit { node := litNode (normFlags fl) s, flags := normFlags fl } = .ok prog)
    {inp : Input} {cs : List Nat} (ht : Utf8Text inp cs) (hu : (normFlags fl).unicode = inp.unicode)
    {k : Nat} (hk : k ≤ cs.length) (fuel : Nat) (hf : Fine (Pk.attempt prog inp fuel (Utf8.off cs k))) :
    PkAgrees (Pk.attempt prog inp fuel (Utf8.off cs k)) (literalAnswer fl s cs k) := by
  have := keystone_attempt he hu (rootOK_litNode _ s) (wf_litNode _ s)
    (by rw [numGroups_litNode]; decide) (by rw [numLoops_litNode]; decide) ht ⟨k, hk, rfl⟩ fuel hf
  simp only at this
  rw [firstMatch_eq_literalAnswer ht s fl hk] at this
  unfold PkAgrees
  split <;> rename_i heq <;> rw [heq] at this <;> exact this

/-! ## Non-vacuity -/

/-- A view of a literal tree as the list of the classes of its chars (`Char c ↦ [c]`). -/
def leafView : Node → Option (List Nat)
  | .char c => some [c]
  | .charSet cs => some cs
  | _ => none

def litView : Node → Option (List (List Nat))
  | .cat [.empty, .goal] => some []
  | .cat [.cat ns, .goal] => IR.allSome (ns.map leafView)
  | .cat [n, .goal] => (leafView n).map fun l => [l]
  | _ => none

def parseView (pat : List Nat) (fl : IR.Flags) : Option (List (List Nat)) :=
  match Parse.parse pat fl with
  | .ok re => litView re.node
  | .error _ => none

/-- All 14 escaped characters, then `é` (2 bytes), `K`, `😀` (4 bytes), and the characters that are
special only in some position or mode and that `escape` leaves bare: `- / , = : < > ! # k 1 space`. -/
def sAll : List Nat :=
  [0x5C, 0x5E, 0x24, 0x2E, 0x7C, 0x3F, 0x2A, 0x2B, 0x28, 0x29, 0x5B, 0x5D, 0x7B, 0x7D,
   0xE9, 0x4B, 0x1F600, 0x2D, 0x2F, 0x2C, 0x3D, 0x3A, 0x3C, 0x3E, 0x21, 0x23, 0x6B, 0x31, 0x20]

example : (escapeChars sAll).length = 43 := by decide

/-- The parser model *evaluated* on `escape(sAll)`, no flags / `u` / `v`: one `Char` per char. -/
example : parseView (escapeChars sAll) {} = some (sAll.map fun c => [c]) := by decide +kernel
example : parseView (escapeChars sAll) { unicode := true } = some (sAll.map fun c => [c]) := by
  decide +kernel
example : parseView (escapeChars sAll) { unicodeSets := true } = some (sAll.map fun c => [c]) := by
  decide +kernel

/-- Under `iu`: `K` and `k` become the class `{K, k, K (U+212A)}`, `é` becomes `{É, é}`. -/
example : parseView (escapeChars [0x2E, 0x4B, 0xE9, 0x2B]) { icase := true, unicode := true } =
    some [[0x2E], [0x4B, 0x6B, 0x212A], [0xC9, 0xE9], [0x2B]] := by decide +kernel
/-- Under `i` alone (legacy upper-casing) the Kelvin sign is not in the class of `k`. -/
example : parseView (escapeChars [0x2E, 0x4B]) { icase := true } = some [[0x2E], [0x4B, 0x6B]] := by
  decide +kernel
/-- The empty string and a single char. -/
example : parseView (escapeChars []) {} = some [] ∧ parseView (escapeChars [0x2A]) {} = some [[0x2A]] := by
  decide +kernel

/-- All `2^6` flag records. -/
def allFlags : List IR.Flags :=
  [false, true].flatMap fun a => [false, true].flatMap fun b => [false, true].flatMap fun c =>
  [false, true].flatMap fun d => [false, true].flatMap fun e => [false, true].map fun f =>
    { icase := a, multiline := b, dotAll := c, noOpt := d, unicode := e, unicodeSets := f }

/-- The parser model evaluated under every flag record: always a literal tree of `|s|` leaves. -/
example : allFlags.all (fun fl =>
    match parseView (escapeChars [0x5C, 0x28, 0x5B, 0x7B, 0x6B, 0x2D]) fl with
    | some v => v.length == 6
    | none => false) = true := by decide +kernel

/-- The haystack `x K(U+212A) . y` and the string `k.` -/
def hay : Input := { kind := .utf8, bytes := Utf8.text [0x78, 0x212A, 0x2E, 0x79], unicode := true }
theorem hay_text : Utf8Text hay [0x78, 0x212A, 0x2E, 0x79] := ⟨rfl, rfl, by decide⟩

/-- The IR semantics *evaluated*: under `iu`, `escape("k.")` matches `K.` at byte 1 and ends at byte
5 (`K` has 3 bytes: the end is not `p + |bytes of s|`); it does not match at byte 0; without `i` it
does not match at byte 1; `escape("K.")` with the Kelvin sign itself does. -/
example :
    firstMatch hay (litNode { icase := true, unicode := true } [0x6B, 0x2E]) 1 = some { pos := 5, caps := [] } ∧
    firstMatch hay (litNode { icase := true, unicode := true } [0x6B, 0x2E]) 0 = none ∧
    firstMatch hay (litNode { unicode := true } [0x6B, 0x2E]) 1 = none ∧
    firstMatch hay (litNode { unicode := true } [0x212A, 0x2E]) 1 = some { pos := 5, caps := [] } := by
  decide +kernel

/-- The hypotheses of `escape_sem_literal` are satisfiable and its first branch fires. -/
example : LitAt { icase := true, unicode := true } [0x6B, 0x2E] [0x78, 0x212A, 0x2E, 0x79] 1 := by
  constructor
  · decide
  · decide +kernel

/-- … and so does the answer the compiled-program theorems speak about. -/
example : literalAnswer { icase := true, unicode := true } [0x6B, 0x2E] [0x78, 0x212A, 0x2E, 0x79] 1 =
      some { pos := 5, caps := [] } ∧
    literalAnswer { icase := true, unicodeSets := true } [0x6B, 0x2E] [0x78, 0x212A, 0x2E, 0x79] 1 =
      some { pos := 5, caps := [] } ∧
    literalAnswer { icase := true } [0x6B, 0x2E] [0x78, 0x212A, 0x2E, 0x79] 1 = none := by
  decide +kernel

/-- The pipeline *evaluated* on `escape(sAll)` under `iu`: it compiles. -/
example : (match compile (compileFuel (escapeChars sAll) { icase := true, unicode := true })
      (escapeChars sAll) { icase := true, unicode := true } with
    | .ok _ => true | _ => false) = true := by decide +kernel

end Regress.C18Full

#print axioms Regress.C18Full.escape_parses_literal
#print axioms Regress.C18Full.literal_shape
#print axioms Regress.C18Full.literal_char
#print axioms Regress.C18Full.literal_side_conditions
#print axioms Regress.C18Full.litAt_exact
#print axioms Regress.C18Full.litAt_icase
#print axioms Regress.C18Full.litAt_unicode_scf17
#print axioms Regress.C18Full.escape_sem_literal
#print axioms Regress.C18Full.escape_sem_literal_iff
#print axioms Regress.C18Full.escape_sem_literal_exact
#print axioms Regress.C18Full.escape_compiles
#print axioms Regress.C18Full.escape_matches_literal_pk
#print axioms Regress.C18Full.escape_matches_literal_pk_total_partial
#print axioms Regress.C18Full.escape_matches_literal_bt_partial
#print axioms Regress.C18Full.escape_keystone_noopt
