import Proofs.Lemmas.LowerMain
import Proofs.Lemmas.LowerSearch
/-!
# ES specification semantics ⇒ IR semantics (the step "ES AST ⇒ what the parser builds")

`Regress.Lower.toIR` (`RegressModel/Spec/ToIR.lean`) is the IR that `parse.rs` builds for the
pattern text of an ES AST (tied to the real parser by the `lower` differential, 0 differences on
every run, last: 61 096 generated ASTs against the crate at commit 5913a34).  This file states that this IR *means* what the ECMAScript specification
says the AST means: one anchored attempt of the specification's Matcher at code point index `i`
(`ES.matchAt`, i.e. `CompilePattern` applied to `(Input, i)`) and one attempt of the IR semantics at
the corresponding byte offset (`IR.firstMatch`) have the same outcome — both fail, or both succeed
with the same end position and the same captures.  Together with `Proofs/Keystone.lean`
(`firstMatch` = the PikeVM on the emitted program) and `Proofs/C03.lean` (the optimizer preserves
`firstMatch`) this closes the chain "ES specification ⇒ compiled program".

Fuel.  The specification model carries a fuel argument (it bounds chains of `RepeatMatcher`
iterations); the statement is: *whenever the specification does not run out of fuel* the two sides
agree (`ResRel` relates `outOfFuel` to everything).  By `ES.esExec_fuel_mono` a definite answer of
the specification never depends on the fuel.

Partial.  The theorem is proved for the fragment `supported` (stages A to D): characters, `.`,
`^ $ \b \B`, sequences, alternations (balanced `make_alt` tree against left-to-right priority),
capture groups (named or not), non-capturing and modifier groups (`m`, `s`), look-ahead and
look-behind (positive and negative; reversed concatenations, capture persistence), greedy and lazy
quantifiers with the empty check and the capture reset, numeric back-references and named
back-references that resolve to one group (stage A); class escapes `\d \D \s \S \w \W`, property
escapes `\p{…}` / `\P{…}` (the tables are the specification's by `Proofs/C11.lean`), legacy and
`u`-mode brackets, `v`-mode class set expressions with union / intersection / subtraction / nested
and complemented classes (`CodePointSet` arithmetic by `Proofs/C12.lean`) (stage B); and, with `i`
under `u` or `v` (stage C, `Canonicalize` = Unicode 17 simple case folding by `Proofs/C10.lean`):
literal characters (`unfold_char`), `.`, `\b \B`, case-insensitive back-references
(`backref_icase`), class escapes, property escapes, brackets under `iu` (`add_icase_code_points`
once, at the end) and class set expressions under `iv` (the specification's folded CharSets against
`close_class_set_operand`); and (stage D) `v`-mode classes with `\q{…}` strings, without `i`
(ordered choice by descending length, `ClassSet::node`) and with `i` (strings compared and matched
up to simple case folding: `ClassSetAlternativeStrings::fold` against `MaybeSimpleCaseFolding`).
Not covered IN THIS FILE (the full statement is the one below without `hsup`): named back-references to
duplicated names - proved separately in `Proofs/DupNameRef.lean` (`lower_attempt_total_dup`,
`lower_search_total_dup`, via the invariant "at most one group of a name is defined") - and properties
of strings (the specification model does not have them).
The input's `unicode` flag must be the pattern's (`inp.unicode = (f.u || f.v)`, as
`Proofs/Keystone.lean` assumes too).  Legacy (non-`u`/`v`) `i` is excluded on purpose: the crate is
known to differ from the specification there (finding F8).
-/
namespace Regress.Lower

open Regress Regress.IR Regress.VM Regress.Parse

/-- The outcome of one specification attempt against the outcome of one IR attempt: `outOfFuel`
is related to everything, `failure` to `none`, `success y` to `some s` with the same cursor
(`s.pos` is the byte offset of code point index `y.endIndex`) and the same captures (`Rel`). -/
def AttemptAgrees (cs : List Nat) (r : ES.MatchResult) (q : Option St) : Prop := ResRel cs r q

/-- What `toIR` returns: the finalized body followed by `Goal`. -/
theorem toIR_inv {f : ES.Flags} {a : ES.Node} {r : Regex} (h : toIR f a = .ok r) :
    ∃ body, lowerNode (normalize a) (ES.countParens (normalize a)) (normalize a) (irFlags f) 0 = .ok body ∧
      ((hasLookbehind (normalize a) = true ∧ ∃ body', Parse.reverseCats false body = .ok body' ∧
          r.node = .cat [body', .goal]) ∨
        (hasLookbehind (normalize a) = false ∧ r.node = .cat [body, .goal])) := by
  simp only [toIR] at h
  split at h
  · cases h
  · cases hb : lowerNode (normalize a) (ES.countParens (normalize a)) (normalize a) (irFlags f) 0 with
    | error e => rw [hb] at h; cases h
    | ok body =>
      rw [hb] at h
      refine ⟨body, rfl, ?_⟩
      cases hlb : hasLookbehind (normalize a) with
      | false =>
        simp only [hlb, Bool.false_eq_true, if_false, Except.ok.injEq] at h
        right; exact ⟨rfl, by rw [← h]; simp [makeCat]⟩
      | true =>
        simp only [hlb, if_true, makeCat, Parse.reverseCats] at h
        left
        refine ⟨rfl, ?_⟩
        cases hl : reverseCatsList false [body, Node.goal] with
        | error e => rw [hl] at h; cases h
        | ok l =>
          rw [hl] at h
          simp only [Bool.false_eq_true, if_false, Except.ok.injEq] at h
          obtain ⟨b', t, hb', ht, rfl⟩ := reverseCatsList_cons.1 hl
          obtain ⟨g', t', hg', ht', rfl⟩ := reverseCatsList_cons.1 ht
          simp only [reverseCatsList, Except.ok.injEq] at ht'; subst ht'
          simp only [Parse.reverseCats, Except.ok.injEq] at hg'; subst hg'
          exact ⟨b', hb', by rw [← h]⟩

/-
The full statement (target): for every flags `f` with `f.i → f.u ∨ f.v`, every AST `a` valid for `f`
(`ES.validate f a = none`) without an `(?i:` modifier outside `u`/`v`, with `toIR f a = .ok r`, every
UTF-8 input, every code point index `i ≤ |cs|` and every fuel:

    AttemptAgrees cs (ES.matchAt cs.toArray a (ES.RER.ofFlags f (ES.countParens a)) fuel i)
      (firstMatch inp r.node (Utf8.off cs i))

`lower_attempt_ast_partial` below proves it with the additional hypothesis `supported … = true` on the
normal form `normalize a` of the AST (what the pattern text can express; `toIR` lowers the normal
form, and the specification's Matcher of `a` and of `normalize a` is the same:
`Proofs/Lemmas/LowerNorm.lean`).  `lower_search_partial` lifts it to the search of
`RegExpBuiltinExec` against `IR.semFind`.
Validity of the AST is not needed as a hypothesis: `toIR f a = .ok r` already implies the part of it
that matters (back-references in range, quantifier bounds in order, names resolvable).
-/

/-- **ES specification ⇒ IR semantics, one anchored attempt** (fragment `supported`; the full
statement is this one without `hsup`). -/
theorem lower_attempt_partial {f : ES.Flags} {a : ES.Node} {r : Regex} {inp : Input} {cs : List Nat}
    (hsup : supported (normalize a) (irFlags f) (normalize a) = true)
    (hir : toIR f a = .ok r) (ht : Utf8Text inp cs) (hiu : inp.unicode = (f.u || f.v)) (i : Nat)
    (hi : i ≤ cs.length) (fuel : Nat) :
    AttemptAgrees cs
      (ES.matchAt cs.toArray (normalize a) (ES.RER.ofFlags f (ES.countParens (normalize a))) fuel i)
      (firstMatch inp r.node (Utf8.off cs i)) := by
  obtain ⟨body, hbody, hcases⟩ := toIR_inv hir
  obtain ⟨body', hrv, hsim, _, hng, hid⟩ :=
    lower_node ht (normalize a) (ES.countParens (normalize a)) (Nat.le_refl _) (normalize a) (irFlags f)
      (ES.RER.ofFlags f (ES.countParens (normalize a))) 0 false body (FlagsRel.ofFlags f _) hiu hsup hbody
      (by omega)
  have hnode : r.node = .cat [body', .goal] := by
    rcases hcases with ⟨_, b', hb', hn⟩ | ⟨hlb, hn⟩
    · rw [hrv] at hb'; cases hb'; exact hn
    · rw [hn, hid rfl hlb]
  have hgroups : numGroups r.node = ES.countParens (normalize a) := by
    rw [hnode]; simp [numGroups, numGroupsList, hng]
  have hsem : ∀ st, sem inp r.node true st = sem inp body' true st := by
    intro st
    rw [hnode]
    simp only [sem, semCat, List.flatMap_cons, List.flatMap_nil, List.append_nil]
    exact flatMap_singleton' _
  simp only [AttemptAgrees, firstMatch, ES.matchAt, hsem, head?_eq_findSome?]
  simp only [dirOf_false, Bool.not_false, Nat.zero_add] at hsim
  apply hsim fuel _ (initSt r.node (Utf8.off cs i)) _ some
  · refine ⟨hi, rfl, by simp [initSt, hgroups, ES.RER.ofFlags], fun j => ?_⟩
    simp only [initSt, ES.RER.ofFlags, hgroups]
    by_cases hj : j < ES.countParens (normalize a)
    · simp [List.getElem?_replicate, hj, CapRel]
    · simp [List.getElem?_replicate, hj, CapRel]
  · simp [initSt, hgroups]
  · refine ⟨by simp [initSt, hgroups], fun j _ hj => ?_⟩
    simp [initSt, hgroups, List.getElem?_replicate, hj]
  · intro y s _ hys
    exact ⟨s, rfl, hys⟩

/-- The same for an AST that is the normal form of its pattern text (every AST the generator
produces is). -/
theorem lower_attempt_partial_nf {f : ES.Flags} {a : ES.Node} {r : Regex} {inp : Input} {cs : List Nat}
    (hnf : normalize a = a) (hsup : supported a (irFlags f) a = true)
    (hir : toIR f a = .ok r) (ht : Utf8Text inp cs) (hiu : inp.unicode = (f.u || f.v)) (i : Nat)
    (hi : i ≤ cs.length) (fuel : Nat) :
    AttemptAgrees cs (ES.matchAt cs.toArray a (ES.RER.ofFlags f (ES.countParens a)) fuel i)
      (firstMatch inp r.node (Utf8.off cs i)) := by
  have := lower_attempt_partial (f := f) (a := a) (r := r) (by rw [hnf]; exact hsup) hir ht hiu i hi fuel
  rw [hnf] at this
  exact this

/-- **The same about the AST itself** (not its normal form): `normalize` does not change the
specification's Matcher (`matchAt_normalize`).  `supported` is still asked of the normal form, which
is what `toIR` lowers. -/
theorem lower_attempt_ast_partial {f : ES.Flags} {a : ES.Node} {r : Regex} {inp : Input} {cs : List Nat}
    (hsup : supported (normalize a) (irFlags f) (normalize a) = true)
    (hir : toIR f a = .ok r) (ht : Utf8Text inp cs) (hiu : inp.unicode = (f.u || f.v)) (i : Nat)
    (hi : i ≤ cs.length) (fuel : Nat) :
    AttemptAgrees cs (ES.matchAt cs.toArray a (ES.RER.ofFlags f (ES.countParens a)) fuel i)
      (firstMatch inp r.node (Utf8.off cs i)) := by
  rw [← matchAt_normalize]
  exact lower_attempt_partial hsup hir ht hiu i hi fuel

/-- The outcome of `RegExpBuiltinExec`'s search (`ES.esExec`: `noMatch`, `matched s e captures` in
code point indices, or `outOfFuel`) against `IR.semFind` (start byte offset and final state). -/
abbrev SearchAgrees (cs : List Nat) (r : ES.ExecResult) (q : Option (Nat × St)) : Prop := SearchRel cs r q

/-- **ES specification ⇒ IR semantics, the leftmost search.**  `RegExpBuiltinExec` from code point
index `start` and `semFind` from the corresponding byte offset find the same match (same start,
same end, same captures), or both find none — unless the specification runs out of fuel. -/
theorem lower_search_partial {f : ES.Flags} {a : ES.Node} {r : Regex} {inp : Input} {cs : List Nat}
    (hsup : supported (normalize a) (irFlags f) (normalize a) = true)
    (hir : toIR f a = .ok r) (ht : Utf8Text inp cs) (hiu : inp.unicode = (f.u || f.v)) (start : Nat)
    (hs : start ≤ cs.length) (fuel : Nat) :
    SearchAgrees cs (ES.esExec f a cs.toArray start fuel) (semFind inp r.node (Utf8.off cs start)) := by
  rw [ES.esExec_eq]
  simp only [SearchAgrees, semFind, List.size_toArray]
  apply search_agrees ht r.node _ (fun j hj => lower_attempt_ast_partial hsup hir ht hiu j hj fuel)
    (cs.length + 1 - start) start _ hs (by omega) (Nat.le_refl _)

/-- Read-out of `AttemptAgrees`: a definite failure of the specification is a failure of the IR
semantics, a success is a success at the corresponding byte offset with corresponding captures. -/
theorem attemptAgrees_failure {cs : List Nat} {q : Option St} (h : AttemptAgrees cs .failure q) : q = none := h

theorem attemptAgrees_success {cs : List Nat} {y : ES.State} {q : Option St} (h : AttemptAgrees cs (.success y) q) :
    ∃ s, q = some s ∧ s.pos = Utf8.off cs y.endIndex ∧ y.captures.length = s.caps.length ∧
      ∀ j : Nat, match (y.captures[j]?).getD none with
        | some (a, b) => (s.caps[j]?).getD (none, none) = (some (Utf8.off cs a), some (Utf8.off cs b))
        | none => ((s.caps[j]?).getD (none, none)).1 = none ∨ ((s.caps[j]?).getD (none, none)).2 = none := by
  obtain ⟨s, hq, hr⟩ := h
  refine ⟨s, hq, hr.pos, hr.len, fun j => ?_⟩
  have := hr.caps j
  cases hc : (y.captures[j]?).getD none with
  | none => rw [hc] at this; exact this
  | some p => obtain ⟨a, b⟩ := p; rw [hc] at this; exact this.2.2

/-! ## Non-vacuity -/

-- (keeps the elaborator from evaluating the closed matcher terms below while type checking)
attribute [irreducible] AttemptAgrees

/-- `/(?<=(a))(b|c)*?\1/` -/
def exAst : ES.Node :=
  .cat [.look false false (.group 1 none (.char 0x61)),
        .quant 0 none false (.group 2 none (.alt [.char 0x62, .char 0x63])),
        .bref 1]

def exInp : Input := { kind := .utf8, bytes := Utf8.text [0x61, 0x62, 0x63, 0x61], unicode := false }

theorem exInp_text : Utf8Text exInp [0x61, 0x62, 0x63, 0x61] := ⟨rfl, rfl, by decide⟩

theorem exAst_nf : normalize exAst = exAst := by rfl
theorem exAst_supported : supported exAst (irFlags {}) exAst = true := by rfl

/-- The hypotheses of `lower_attempt_partial_nf` hold for a pattern with a look-behind, a lazy loop
over a capture group with an alternation, and a back-reference; and both sides do find the match
`1..4` with captures `(0,1)`, `(2,3)`. -/
example : ∃ r, toIR {} exAst = .ok r ∧
    AttemptAgrees [0x61, 0x62, 0x63, 0x61]
      (ES.matchAt #[0x61, 0x62, 0x63, 0x61] exAst (ES.RER.ofFlags {} (ES.countParens exAst)) 10 1)
      (firstMatch exInp r.node (Utf8.off [0x61, 0x62, 0x63, 0x61] 1)) := by
  have hok : (toIR {} exAst).toBool = true := by rfl
  cases h : toIR {} exAst with
  | error e => rw [h] at hok; cases hok
  | ok r =>
    exact ⟨r, rfl, lower_attempt_partial_nf exAst_nf exAst_supported h exInp_text rfl 1 (by decide) 10⟩

/-- `/[^a-c\d]\P{Lu}[\w--[a-f]]/v`-like patterns: a `u`-mode bracket with a range and a class escape,
a negated property, and (under `v`) a subtraction with a nested class. -/
def exAstU : ES.Node :=
  .cat [.cls true [.r 0x61 0x63, .esc .d], .prop true 0 0x14C75, .esc .W]

def exAstV : ES.Node :=
  .cat [.vcls false .sub [.esc .w, .cls false .union [.r 0x61 0x66]], .vcls true .union [.c 0x78, .prop false 1 0x14C75]]

theorem exAstU_supported : supported exAstU (irFlags { u := true }) exAstU = true := by decide +kernel
theorem exAstV_supported : supported exAstV (irFlags { v := true }) exAstV = true := by decide +kernel

theorem exAstU_nf : normalize exAstU = exAstU := by rfl
theorem exAstV_nf : normalize exAstV = exAstV := by rfl

def exInpU : Input := { kind := .utf8, bytes := Utf8.text [0x7A, 0x61, 0x20], unicode := true }
theorem exInpU_text : Utf8Text exInpU [0x7A, 0x61, 0x20] := ⟨rfl, rfl, by decide⟩

example (r : Regex) (h : toIR { u := true } exAstU = .ok r) (fuel : Nat) :
    AttemptAgrees [0x7A, 0x61, 0x20] (ES.matchAt #[0x7A, 0x61, 0x20] exAstU
      (ES.RER.ofFlags { u := true } (ES.countParens exAstU)) fuel 0)
      (firstMatch exInpU r.node (Utf8.off [0x7A, 0x61, 0x20] 0)) :=
  lower_attempt_partial_nf exAstU_nf exAstU_supported h exInpU_text rfl 0 (by decide) fuel

example (r : Regex) (h : toIR { v := true } exAstV = .ok r) (fuel : Nat) :
    AttemptAgrees [0x7A, 0x61, 0x20] (ES.matchAt #[0x7A, 0x61, 0x20] exAstV
      (ES.RER.ofFlags { v := true } (ES.countParens exAstV)) fuel 0)
      (firstMatch exInpU r.node (Utf8.off [0x7A, 0x61, 0x20] 0)) :=
  lower_attempt_partial_nf exAstV_nf exAstV_supported h exInpU_text rfl 0 (by decide) fuel

/-- `/(k)\1\b[^\W\d]/iu` on `Kk\u212a`-like text: case-insensitive literal, back-reference and
bracket under `iu`. -/
def exAstI : ES.Node :=
  .cat [.group 1 none (.char 0x6B), .bref 1, .nwb, .cls true [.esc .W, .esc .d], .dot]

theorem exAstI_nf : normalize exAstI = exAstI := by rfl
theorem exAstI_supported : supported exAstI (irFlags { i := true, u := true }) exAstI = true := by decide +kernel

def exInpI : Input := { kind := .utf8, bytes := Utf8.text [0x212A, 0x4B, 0x17F, 0x41], unicode := true }
theorem exInpI_text : Utf8Text exInpI [0x212A, 0x4B, 0x17F, 0x41] := ⟨rfl, rfl, by decide⟩

example (r : Regex) (h : toIR { i := true, u := true } exAstI = .ok r) (fuel : Nat) :
    AttemptAgrees [0x212A, 0x4B, 0x17F, 0x41] (ES.matchAt #[0x212A, 0x4B, 0x17F, 0x41] exAstI
      (ES.RER.ofFlags { i := true, u := true } (ES.countParens exAstI)) fuel 0)
      (firstMatch exInpI r.node (Utf8.off [0x212A, 0x4B, 0x17F, 0x41] 0)) :=
  lower_attempt_partial_nf exAstI_nf exAstI_supported h exInpI_text rfl 0 (by decide) fuel

/-- `/[\W--[^k]][\P{Lu}&&\w]/iv`: complement, subtraction and intersection of folded sets. -/
def exAstIV : ES.Node :=
  .cat [.vcls false .sub [.esc .w, .cls true .union [.c 0x6B]],
        .vcls true .inter [.prop true 0 0x14C75, .esc .w]]

theorem exAstIV_nf : normalize exAstIV = exAstIV := by rfl
theorem exAstIV_supported : supported exAstIV (irFlags { i := true, v := true }) exAstIV = true := by
  decide +kernel

example (r : Regex) (h : toIR { i := true, v := true } exAstIV = .ok r) (fuel : Nat) :
    AttemptAgrees [0x212A, 0x4B, 0x17F, 0x41] (ES.matchAt #[0x212A, 0x4B, 0x17F, 0x41] exAstIV
      (ES.RER.ofFlags { i := true, v := true } (ES.countParens exAstIV)) fuel 0)
      (firstMatch exInpI r.node (Utf8.off [0x212A, 0x4B, 0x17F, 0x41] 0)) :=
  lower_attempt_partial_nf exAstIV_nf exAstIV_supported h exInpI_text rfl 0 (by decide) fuel

/-- `/[\q{abc|ab|}a--\q{ab}]x/v`: a class with strings, subtraction of a string, the empty string. -/
def exAstS : ES.Node :=
  .cat [.vcls false .sub [.cls false .union [.q [[0x61, 0x62, 0x63], [0x61, 0x62], []], .c 0x61],
                          .q [[0x61, 0x62]]], .char 0x78]

theorem exAstS_nf : normalize exAstS = exAstS := by rfl
theorem exAstS_supported : supported exAstS (irFlags { v := true }) exAstS = true := by decide +kernel

def exInpS : Input := { kind := .utf8, bytes := Utf8.text [0x61, 0x62, 0x78], unicode := true }
theorem exInpS_text : Utf8Text exInpS [0x61, 0x62, 0x78] := ⟨rfl, rfl, by decide⟩

example (r : Regex) (h : toIR { v := true } exAstS = .ok r) (fuel : Nat) (i : Nat) (hi : i ≤ 3) :
    AttemptAgrees [0x61, 0x62, 0x78] (ES.matchAt #[0x61, 0x62, 0x78] exAstS
      (ES.RER.ofFlags { v := true } (ES.countParens exAstS)) fuel i)
      (firstMatch exInpS r.node (Utf8.off [0x61, 0x62, 0x78] i)) :=
  lower_attempt_partial_nf exAstS_nf exAstS_supported h exInpS_text rfl i hi fuel

/-- `/[\q{ab|k}&&[\q{AB}\u212A]]x/vi` on `"aBx"`: strings are compared up to case folding in `&&`
(the defect found by this proof and fixed in the crate: commit f5d720f), and matched up to folding. -/
def exAstSI : ES.Node :=
  .cat [.vcls false .inter [.q [[0x61, 0x62], [0x6B]], .cls false .union [.q [[0x41, 0x42]], .c 0x212A]],
        .char 0x78]

theorem exAstSI_nf : normalize exAstSI = exAstSI := by rfl
theorem exAstSI_supported : supported exAstSI (irFlags { i := true, v := true }) exAstSI = true := by
  decide +kernel

def exInpSI : Input := { kind := .utf8, bytes := Utf8.text [0x61, 0x42, 0x78], unicode := true }
theorem exInpSI_text : Utf8Text exInpSI [0x61, 0x42, 0x78] := ⟨rfl, rfl, by decide⟩

example (r : Regex) (h : toIR { i := true, v := true } exAstSI = .ok r) (fuel : Nat) (i : Nat) (hi : i ≤ 3) :
    AttemptAgrees [0x61, 0x42, 0x78] (ES.matchAt #[0x61, 0x42, 0x78] exAstSI
      (ES.RER.ofFlags { i := true, v := true } (ES.countParens exAstSI)) fuel i)
      (firstMatch exInpSI r.node (Utf8.off [0x61, 0x42, 0x78] i)) :=
  lower_attempt_partial_nf exAstSI_nf exAstSI_supported h exInpSI_text rfl i hi fuel

end Regress.Lower

#print axioms Regress.Lower.lower_attempt_partial
#print axioms Regress.Lower.lower_attempt_partial_nf
#print axioms Regress.Lower.lower_attempt_ast_partial
#print axioms Regress.Lower.lower_search_partial
#print axioms Regress.Lower.attemptAgrees_success
