import Proofs.Lemmas.Match
/-!
# C16: `Match::group`, `Groups`, `Match::named_group`, `NamedGroups` (`src/api.rs` 131-375)

Model: `RegressModel/Api/Match.lean`. Names are `List Nat` (chars), `[]` = unnamed group.
`Except.error ()` = the index-out-of-bounds panic of `captures[idx]` / `group_names[idx..]`.

Specification functions used in the statements (defined in `Proofs/Lemmas/Match.lean`):
* `dedupFirst l` – walk `l` left to right, keep an element iff it did not occur earlier
  (characterised by `dedupFirst_nil`, `dedupFirst_append_singleton`, `mem_dedupFirst`,
  `nodup_dedupFirst`).
* `m.allGroups = some m.range :: m.captures`.

Summary of findings: everything requested holds, except that `NamedGroups::size_hint` is *not* exact
although `ExactSizeIterator` is implemented for `NamedGroups` (`named_size_hint_inexact`); it is an
upper bound (`named_size_hint_upper`), and exact when the non-empty names are pairwise distinct
(`named_size_hint_exact_of_nodup`).
-/
namespace Regress.C16
open Regress.Api

/-- Running example: `(?<a>x)|()(?<b>y)(?<a>z)`-like shape: names `a, "", b, a`; the first `a`
does not participate, the second does. -/
def exM : MatchR :=
  { range := (0, 3)
    captures := [none, some (0, 1), some (1, 2), some (2, 3)]
    names := [[97], [], [98], [97]] }

/-! ## `Match::group` -/

/-- `group(0)` is the whole match. -/
theorem group_zero (m : MatchR) : m.group 0 = some m.range := by
  simp [MatchR.group]

example : exM.group 0 = some (0, 3) := by decide

/-- `group(i+1)` is `captures[i]` (a `getElem` with the bound proof `h`). -/
theorem group_succ (m : MatchR) (i : Nat) (h : i < m.captures.length) :
    m.group (i + 1) = m.captures[i] := by
  have h' : i + 1 ≤ m.captures.length := h
  simp [MatchR.group, h']

example : (1 : Nat) < exM.captures.length ∧ exM.group 2 = some (0, 1) := by decide

/-- `group(i)` is `None` beyond the captures. -/
theorem group_beyond (m : MatchR) (i : Nat) (h : m.captures.length < i) : m.group i = none := by
  have h0 : i ≠ 0 := by omega
  have h1 : ¬ i ≤ m.captures.length := by omega
  simp [MatchR.group, h0, h1]

example : exM.captures.length < 5 ∧ exM.group 5 = none := by decide

/-- All three cases at once: `group(i) = (Some(range) :: captures).get(i).flatten()`. -/
theorem group_eq (m : MatchR) (i : Nat) : m.group i = ((some m.range :: m.captures)[i]?).join :=
  group_eq_getElem? m i

/-! ## `Groups` -/

/-- `m.groups().collect()` is the whole match followed by the captures. -/
theorem groups_eq (m : MatchR) : m.groups = some m.range :: m.captures := by
  have := Groups.collectFuel_eq m (m.captures.length + 2) 0 (by omega)
  simpa [MatchR.groups, Groups.new, MatchR.allGroups] using this

theorem groups_length (m : MatchR) : m.groups.length = m.captures.length + 1 := by
  simp [groups_eq]

example : exM.groups = [some (0, 3), none, some (0, 1), some (1, 2), some (2, 3)] := by decide

/-- The `Groups` state after `k` calls of `next` on `m.groups()`. -/
def groupsAfter (m : MatchR) : Nat → Groups
  | 0 => Groups.new m
  | k + 1 => ((groupsAfter m k).next m).2

theorem groupsAfter_eq (m : MatchR) (k : Nat) :
    groupsAfter m k =
      { nextGroupIdx := min k (m.captures.length + 1), max := m.captures.length + 1 } := by
  induction k with
  | zero => simp [groupsAfter, Groups.new]
  | succ k ih =>
    simp only [groupsAfter, ih, Groups.next]
    by_cases h : k < m.captures.length + 1
    · have h' : min k (m.captures.length + 1) < m.captures.length + 1 := by omega
      simp only [h', if_true]
      congr 1; omega
    · have h' : ¬ min k (m.captures.length + 1) < m.captures.length + 1 := by omega
      simp only [h', if_false]
      congr 1; omega

/-- The `(k+1)`-th call of `next` yields the `k`-th element of `Some(range) :: captures`, and `None`
from call `captures.len() + 2` on. -/
theorem groups_next_yields (m : MatchR) (k : Nat) :
    ((groupsAfter m k).next m).1 = (some m.range :: m.captures)[k]? := by
  rw [groupsAfter_eq]
  simp only [Groups.next]
  by_cases h : k < m.captures.length + 1
  · have h' : min k (m.captures.length + 1) < m.captures.length + 1 := by omega
    have hk : min k (m.captures.length + 1) = k := by omega
    have hlt : k < m.allGroups.length := by simpa [MatchR.allGroups] using h
    rw [hk]
    simp only [h, if_true, group_of_lt m k hlt]
    exact (List.getElem?_eq_getElem hlt).symm
  · have h' : ¬ min k (m.captures.length + 1) < m.captures.length + 1 := by omega
    simp only [h', if_false]
    exact (List.getElem?_eq_none (by simp; omega)).symm

/-- `size_hint` is exact at every step: after any number `k` of `next` calls, `size_hint` equals the
number of items a subsequent drain yields (for every fuel that is at least `size_hint`; in particular
for every `fuel ≥ captures.len() + 1`), which is `captures.len() + 1 - k`. -/
theorem groups_size_hint_exact (m : MatchR) (k fuel : Nat)
    (hf : (groupsAfter m k).sizeHint ≤ fuel) :
    (groupsAfter m k).sizeHint = (Groups.collectFuel m fuel (groupsAfter m k)).length ∧
    (groupsAfter m k).sizeHint = m.captures.length + 1 - k := by
  rw [groupsAfter_eq] at hf ⊢
  simp only [Groups.sizeHint] at hf ⊢
  rw [Groups.collectFuel_eq m fuel _ hf]
  simp only [List.length_drop, MatchR.allGroups, List.length_cons]
  exact ⟨trivial, by omega⟩

example : (groupsAfter exM 2).sizeHint = 3 ∧
    (Groups.collectFuel exM 5 (groupsAfter exM 2)).length = 3 := by decide

/-- The state after `k` more calls of `next`, starting from an arbitrary state `g`. -/
def groupsIter (m : MatchR) : Nat → Groups → Groups
  | 0, g => g
  | k + 1, g => groupsIter m k (g.next m).2

/-- `Groups` is fused: a `next` that returns `None` leaves the state unchanged, hence every later
`next` returns `None` as well. -/
theorem groups_fused (m : MatchR) (g : Groups) (h : (g.next m).1 = none) :
    ∀ k, groupsIter m k g = g ∧ (groupsIter m k g).next m = (none, g) := by
  have hlt : ¬ g.nextGroupIdx < g.max := by
    intro hlt; simp [Groups.next, hlt] at h
  have hn : g.next m = (none, g) := by simp [Groups.next, hlt]
  have hit : ∀ k, groupsIter m k g = g := by
    intro k
    induction k with
    | zero => rfl
    | succ k ih => simp only [groupsIter, hn]; exact ih
  intro k
  rw [hit k]
  exact ⟨rfl, hn⟩

example : ((groupsAfter exM 5).next exM).1 = none := by decide

/-! ## `NamedGroups`: order and agreement with `named_group` -/

/-- Under `NamesOK`, `named_groups().collect()` does not panic and yields exactly the distinct
non-empty names in order of first occurrence. -/
theorem named_groups_source_order (m : MatchR) (hok : m.NamesOK) :
    ∃ l, m.namedGroups = .ok l ∧
      l.map (·.1) = dedupFirst (m.names.filter (fun s => !s.isEmpty)) := by
  refine ⟨_, namedGroups_eq_spec m (namesOK_le m hok), ?_⟩
  simp [namedSpec, List.map_map, Function.comp_def]

example : exM.NamesOK ∧ exM.namedGroups = .ok [([97], some (2, 3)), ([98], some (1, 2))] ∧
    dedupFirst (exM.names.filter (fun s => !s.isEmpty)) = [[97], [98]] := by decide

/-- Stronger form: each yielded name is paired with `named_group(name)`. -/
theorem named_groups_eq (m : MatchR) (hok : m.NamesOK) :
    m.namedGroups = .ok ((dedupFirst (m.names.filter (fun s => !s.isEmpty))).map
      (fun n => (n, m.namedGroup n))) :=
  namedGroups_eq_spec m (namesOK_le m hok)

/-- `named_groups()` and `named_group()` agree: for a non-empty name that occurs in `group_names`
the iterator yields an entry for it whose value is `named_group(name)`; for the empty name or a name
that does not occur, `named_group` is `None` and the iterator yields no entry. -/
theorem named_agree (m : MatchR) (hok : m.NamesOK) (l : List (List Nat × Option Range))
    (hl : m.namedGroups = .ok l) (n : List Nat) :
    (n ≠ [] ∧ n ∈ m.names →
      (l.find? (fun p => p.1 == n)).isSome = true ∧
      m.namedGroup n = (l.find? (fun p => p.1 == n)).bind (·.2)) ∧
    (n = [] ∨ n ∉ m.names →
      m.namedGroup n = none ∧ l.find? (fun p => p.1 == n) = none) := by
  rw [named_groups_eq m hok] at hl
  cases hl
  rw [find?_map_pair]
  constructor
  · rintro ⟨hne, hmem⟩
    have : n ∈ dedupFirst (m.names.filter (fun s => !s.isEmpty)) := by
      rw [mem_dedupFirst, List.mem_filter]
      exact ⟨hmem, by simpa using hne⟩
    simp [this]
  · intro h
    have hnot : n ∉ dedupFirst (m.names.filter (fun s => !s.isEmpty)) := by
      rw [mem_dedupFirst, List.mem_filter]
      rintro ⟨hmem, hne⟩
      rcases h with h | h
      · subst h; simp at hne
      · exact h hmem
    refine ⟨?_, by simp [hnot]⟩
    rcases h with h | h
    · subst h; simp [MatchR.namedGroup]
    · exact namedGroup_of_not_mem m n h

example : exM.NamesOK ∧ ([97] : List Nat) ≠ [] ∧ [97] ∈ exM.names ∧ [99] ∉ exM.names ∧
    exM.namedGroup [97] = some (2, 3) ∧ exM.namedGroup [99] = none := by decide

/-! ## `named_group` prefers a participating group -/

/-- If `i` is the first index whose name is `n` and whose capture participated (`Some(r)`), then
`named_group(n) = Some(r)`. (No `NamesOK` needed: `zip` truncates.) -/
theorem named_prefers_participating (m : MatchR) (n : List Nat) (i : Nat) (r : Range)
    (hne : n ≠ []) (hi : m.names[i]? = some n) (hc : m.captures[i]? = some (some r))
    (hfirst : ∀ j, j < i → m.names[j]? = some n → ∀ r', m.captures[j]? ≠ some (some r')) :
    m.namedGroup n = some r := by
  unfold MatchR.namedGroup
  have : n.isEmpty = false := by simpa using hne
  simp only [this, Bool.false_eq_true, if_false]
  exact findSome_filter_zip_participating n r _ _ i hi hc hfirst

example : exM.names[3]? = some [97] ∧ exM.captures[3]? = some (some (2, 3)) ∧
    exM.captures[0]? = some none ∧ exM.namedGroup [97] = some (2, 3) := by decide

/-- Existence form: if some index has name `n` and a participating capture, there is a *first* such
index, and `named_group(n)` is its range. -/
theorem named_prefers_participating_exists (m : MatchR) (n : List Nat) (hne : n ≠ [])
    (h : ∃ (i : Nat) (r : Range), m.names[i]? = some n ∧ m.captures[i]? = some (some r)) :
    ∃ (i : Nat) (r : Range), m.names[i]? = some n ∧ m.captures[i]? = some (some r) ∧
      (∀ j, j < i → m.names[j]? = some n → ∀ r', m.captures[j]? ≠ some (some r')) ∧
      m.namedGroup n = some r := by
  obtain ⟨i, hi⟩ := h
  induction i using Nat.strongRecOn with
  | ind i ih =>
    by_cases hex : ∃ j : Nat, j < i ∧ ∃ r', m.names[j]? = some n ∧ m.captures[j]? = some (some r')
    · obtain ⟨j, hj, hP⟩ := hex
      exact ih j hj hP
    · obtain ⟨r, h1, h2⟩ := hi
      have hfirst : ∀ j, j < i → m.names[j]? = some n → ∀ r', m.captures[j]? ≠ some (some r') :=
        fun j hj hn r' hc => hex ⟨j, hj, r', hn, hc⟩
      exact ⟨i, r, h1, h2, hfirst, named_prefers_participating m n i r hne h1 h2 hfirst⟩

/-- Conversely, if no group named `n` participated, `named_group(n)` is `None`. -/
theorem named_group_none_of_no_participating (m : MatchR) (n : List Nat)
    (h : ∀ i : Nat, m.names[i]? = some n → ∀ r, m.captures[i]? ≠ some (some r)) :
    m.namedGroup n = none := by
  unfold MatchR.namedGroup
  split
  · rfl
  · exact findSome_filter_zip_none n _ _ h

/-! ## `NamedGroups`: reachable states, fusedness, `size_hint` -/

/-- The `NamedGroups` state after `k` calls of `next` on `m.named_groups()` (`error` = a panic). -/
def namedAfter (m : MatchR) : Nat → Except Unit NamedGroups
  | 0 => .ok NamedGroups.new
  | k + 1 =>
    match namedAfter m k with
    | .error () => .error ()
    | .ok g =>
      match g.next m with
      | .error () => .error ()
      | .ok (_, g') => .ok g'

/-- The invariant `next_group_idx ≤ group_names.len()` (the `debug_assert!` of `next`) holds
initially and is preserved by `next`, which never panics under `NamesOK`. -/
theorem named_next_inv (m : MatchR) (hok : m.NamesOK) (g : NamedGroups)
    (hg : g.nextGroupIdx ≤ m.names.length) :
    ∃ r g', g.next m = .ok (r, g') ∧ g'.nextGroupIdx ≤ m.names.length := by
  obtain ⟨r, g', e, _, h2, _⟩ := NamedGroups.next_spec m (namesOK_le m hok) g hg
  exact ⟨r, g', e, h2⟩

/-- Every state reachable from `m.named_groups()` by `next` calls exists (no panic) and satisfies the
invariant. -/
theorem named_reachable_inv (m : MatchR) (hok : m.NamesOK) (k : Nat) :
    ∃ g, namedAfter m k = .ok g ∧ g.nextGroupIdx ≤ m.names.length := by
  induction k with
  | zero => exact ⟨NamedGroups.new, rfl, Nat.zero_le _⟩
  | succ k ih =>
    obtain ⟨g, e, hg⟩ := ih
    obtain ⟨r, g', e', hg'⟩ := named_next_inv m hok g hg
    exact ⟨g', by simp [namedAfter, e, e'], hg'⟩

/-- `NamedGroups` is fused: after a `next` that returned `None`, `next` returns `None` again. -/
theorem named_groups_fused (m : MatchR) (hok : m.NamesOK) (g g' : NamedGroups)
    (hg : g.nextGroupIdx ≤ m.names.length) (h : g.next m = .ok (none, g')) :
    ∃ g'', g'.next m = .ok (none, g'') := by
  have hle := namesOK_le m hok
  obtain ⟨r, g1, e, _, h2, h3, _⟩ := NamedGroups.next_spec m hle g hg
  rw [h] at e
  cases e
  obtain ⟨r2, g2, e2, _, _, _, h4⟩ := NamedGroups.next_spec m hle g' h2
  cases r2 with
  | none => exact ⟨g2, e2⟩
  | some x =>
    have := (h4 x rfl).2
    rw [(h3 rfl).2] at this
    cases this

/-- DEFECT (`ExactSizeIterator for NamedGroups`): `size_hint` counts duplicate names, `next` skips
them. Names `["a", "", "a"]`: the fresh iterator reports `(2, Some(2))` but yields one item. -/
theorem named_size_hint_inexact :
    let m : MatchR := { range := (0, 1), captures := [none, none, some (0, 1)],
                        names := [[97], [], [97]] }
    m.NamesOK ∧ NamedGroups.sizeHint m NamedGroups.new = .ok 2 ∧
    m.namedGroups = .ok [([97], some (0, 1))] := by decide

/-- The inexactness also shows up on the running example mid-iteration: after one `next`, the hint is
2 but only one item remains. -/
example : ∃ g, namedAfter exM 1 = .ok g ∧ NamedGroups.sizeHint exM g = .ok 2 ∧
    NamedGroups.collectFuel exM 5 g = .ok [([98], some (1, 2))] :=
  ⟨⟨1⟩, by decide, by decide, by decide⟩

/-- `size_hint` is an upper bound at every step: in every state satisfying the invariant (all
reachable states do, `named_reachable_inv`), `size_hint` does not panic, a drain (with any fuel
`≥ len + 1`) does not panic, and the number of items drained is at most the hint. -/
theorem named_size_hint_upper (m : MatchR) (hok : m.NamesOK) (g : NamedGroups)
    (hg : g.nextGroupIdx ≤ m.names.length) (fuel : Nat) (hf : m.names.length + 1 ≤ fuel) :
    ∃ h rest, NamedGroups.sizeHint m g = .ok h ∧ NamedGroups.collectFuel m fuel g = .ok rest ∧
      rest.length ≤ h := by
  refine ⟨_, _, ?_, NamedGroups.collectFuel_eq m (namesOK_le m hok) fuel g hg (by omega),
    length_namedSpecFrom_le m g.nextGroupIdx⟩
  have : ¬ g.nextGroupIdx > m.names.length := by omega
  simp [NamedGroups.sizeHint, this]

/-- The same, phrased for the state after `k` calls of `next`. -/
theorem named_size_hint_upper_after (m : MatchR) (hok : m.NamesOK) (k : Nat) :
    ∃ g h rest, namedAfter m k = .ok g ∧ NamedGroups.sizeHint m g = .ok h ∧
      NamedGroups.collectFuel m (m.names.length + 1) g = .ok rest ∧ rest.length ≤ h := by
  obtain ⟨g, e, hg⟩ := named_reachable_inv m hok k
  obtain ⟨h, rest, e1, e2, hle⟩ := named_size_hint_upper m hok g hg _ (Nat.le_refl _)
  exact ⟨g, h, rest, e, e1, e2, hle⟩

example : exM.NamesOK ∧ NamedGroups.sizeHint exM NamedGroups.new = .ok 3 ∧
    (exM.namedGroups.toOption.map List.length) = some 2 := by decide

/-- If the non-empty names are pairwise distinct, `size_hint` is exact at every step. -/
theorem named_size_hint_exact_of_nodup (m : MatchR) (hok : m.NamesOK)
    (hnd : (m.names.filter (fun s => !s.isEmpty)).Nodup) (g : NamedGroups)
    (hg : g.nextGroupIdx ≤ m.names.length) (fuel : Nat) (hf : m.names.length + 1 ≤ fuel) :
    ∃ rest, NamedGroups.collectFuel m fuel g = .ok rest ∧
      NamedGroups.sizeHint m g = .ok rest.length := by
  refine ⟨_, NamedGroups.collectFuel_eq m (namesOK_le m hok) fuel g hg (by omega), ?_⟩
  have : ¬ g.nextGroupIdx > m.names.length := by omega
  simp [NamedGroups.sizeHint, this, namedSpecFrom_of_nodup m _ hnd]

/-- The same, phrased for the state after `k` calls of `next`. -/
theorem named_size_hint_exact_of_nodup_after (m : MatchR) (hok : m.NamesOK)
    (hnd : (m.names.filter (fun s => !s.isEmpty)).Nodup) (k : Nat) :
    ∃ g rest, namedAfter m k = .ok g ∧
      NamedGroups.collectFuel m (m.names.length + 1) g = .ok rest ∧
      NamedGroups.sizeHint m g = .ok rest.length := by
  obtain ⟨g, e, hg⟩ := named_reachable_inv m hok k
  obtain ⟨rest, e1, e2⟩ := named_size_hint_exact_of_nodup m hok hnd g hg _ (Nat.le_refl _)
  exact ⟨g, rest, e, e1, e2⟩

/-- Non-vacuity: a match with distinct non-empty names. -/
def exN : MatchR :=
  { range := (0, 2), captures := [some (0, 1), none, some (1, 2)], names := [[97], [], [98]] }

example : exN.NamesOK ∧ (exN.names.filter (fun s => !s.isEmpty)).Nodup ∧
    NamedGroups.sizeHint exN NamedGroups.new = .ok 2 ∧
    exN.namedGroups = .ok [([97], some (0, 1)), ([98], some (1, 2))] := by decide

#print axioms group_zero
#print axioms group_succ
#print axioms group_beyond
#print axioms group_eq
#print axioms groups_eq
#print axioms groups_length
#print axioms groups_next_yields
#print axioms groups_size_hint_exact
#print axioms groups_fused
#print axioms named_groups_source_order
#print axioms named_groups_eq
#print axioms named_agree
#print axioms named_prefers_participating
#print axioms named_prefers_participating_exists
#print axioms named_group_none_of_no_participating
#print axioms named_next_inv
#print axioms named_reachable_inv
#print axioms named_groups_fused
#print axioms named_size_hint_inexact
#print axioms named_size_hint_upper
#print axioms named_size_hint_upper_after
#print axioms named_size_hint_exact_of_nodup
#print axioms named_size_hint_exact_of_nodup_after

end Regress.C16
