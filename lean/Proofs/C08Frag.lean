import Proofs.Lemmas.C08FragTop
/-!
# C08 on a fragment: the crate's parser accepts exactly the valid ECMAScript patterns

`Parse.parse` (the line-by-line model of `parse::try_parse`) and `ESG.esValid` (the ES2025 Pattern
grammar recognizer written from ECMA-262) are two independent recursive descents.  Here they are
PROVED to agree on a lexically defined fragment of the pattern language, in both modes:

    inFrag pat → withinLimits pat → ((Parse.parse pat fl).isOk ↔ esValid (flagsText fl) pat)

* `C08_fragment_u` (flags `u` or `v`): ordinary characters, `.`, `^`, `$`, `|`, capturing groups,
  `(?:…)`, the four look-arounds, the quantifiers `* + ? {n} {n,} {n,m}` with optional `?`
  (reversed bounds, also saturated ones; `{` `}` `]` are errors; look-arounds are not quantifiable),
  all escapes outside classes except `\p \P \k` (class escapes, `\b \B`, control escapes, `\cX`, `\0`,
  `\xHH`, `\uHHHH` with surrogate pairs, `\u{…}`, identity escapes of syntax characters, decimal
  back-references with the "at most the number of groups" early error), and — without `v` —
  character classes without `\p \P` (ranges, class escapes, `\b`, `\-`, the out-of-order and
  class-in-range errors).
* `C08_fragment_u_named` (flags `u` or `v`): all of the above plus NAMED GROUPS `(?<name>…)` and
  named back-references `\k<name>` (also forward and dangling ones: a `\k<name>` without a group of
  that name is an error for both), names being full `RegExpIdentifierName`s (Unicode `ID_Start` /
  `ID_Continue`, `$`, `_`, ZWNJ/ZWJ, `\uHHHH` with surrogate pairs and `\u{…}` escapes; malformed names
  are errors for both), under the lexical side condition that the group names of the pattern
  (`lexNames pat`, escapes resolved) are pairwise distinct.  The duplicate-name rule itself (ES2025
  allows equal names in different alternatives) is NOT covered yet.
* `C08_fragment_legacy` (neither `u` nor `v`, Annex B): the same token set without `\` and `[`
  (lone `{` `}` `]` are literals, look-aheads are quantifiable, `InvalidBracedQuantifier`).

Not covered: duplicate group names, named groups in Annex B mode, modifier groups `(?ims-ims:…)`, `\p{…}`, classes under `v`,
escapes and classes in Annex B mode, lone surrogates under `u` / supplementary code points without `u`.

Definitions (all decidable, all lexical; `Proofs/Lemmas/C08FragDefs.lean`):
* `fragCore ⟨e, k, nm⟩` = `fragGo ⟨e, k, nm⟩ false`, a two-mode scanner (`e`: escapes admitted, `k`:
  classes admitted, `nm`: named groups and `\k` admitted); `parenOk`, `escOk` say what may follow `(` and `\`.
* `withinLimits pat` = `md pat ≤ 255 ∧ opens pat ≤ 65535 ∧ quants pat ≤ 65535`: `md` the nesting depth
  of parentheses (escape- and class-aware; the crate's `MAX_NESTING_DEPTH = 256` counts the top-level
  disjunction), `opens` the number of `(` (at least the number of capture groups, limit 65535),
  `quants` the number of characters `* + ? {` (at least the number of quantifiers, limit 65535).
  Under these no `Error::…limit` of the crate is reachable.
* `flagsText fl`: `i`, `m`, `s`, then `v` if `unicode_sets`, else `u` if `unicode`.

Method (`Proofs/Lemmas/C08Frag{Num,Esc,Cls,Named,Sim,Top}.lean`): a simulation of the grammar recognizer
(`disj alt body term quantified atom`) by the crate's descent (`disjLoop termLoop consumeDisjunction
consumeAtom`), by induction on the recognizer's fuel, with the lexical pieces (quantifiers, escapes,
classes, the capture-group pre-scan) related separately.  The two places where the recognizers are
NOT step-for-step aligned are part of the simulation relation: the crate fails on a quantifier after
an assertion where the grammar fails one step later (`TStep`), and the crate checks a decimal escape
against the pre-scan count (and a `\k<name>` against the pre-scan name table) at once where the
grammar checks at the end (`Poisoned`).  The group-name scanners (`tryConsumeName` / `groupName`) are
related in `C08FragNamed.lean`; the pre-scan's name table is `lexNames pat` (`parseCaptureGroups_frag`).
One disagreement was found this way (an escaped `>` ended a group name in the crate, F36); it is fixed
in the crate (89943a9) and the model mirrors the fix.
-/
namespace Regress.C08Frag
open Regress Regress.IR Regress.Parse Regress.ESG

/-- The fragment, UnicodeMode (`v`: the flag `v` is set): `fragCore true (!v)` —
* a `\\` outside a class is followed by anything but `p` `P` (property escapes) and `k` (named
  back-references);
* without `v`, character classes `[…]` (up to the first unescaped `]`) in which no `\\p` / `\\P` occurs;
  with `v`, no `[` at all;
* every `(?` (unescaped, outside classes) is followed by `:`, `=`, `!`, `<=`, `<!`, or by a character
  other than `<` `i` `m` `s` `-`, or by the end of the pattern (the last two are errors for both
  recognizers), i.e. no named groups, no modifiers;
over Unicode scalar values (what a Rust `&str` can contain). -/
def inFragU (v : Bool) (pat : List Nat) : Bool :=
  fragCore { e := true, k := !v } pat &&
    pat.all fun c => decide (c ≤ 0x10FFFF) && !(decide (0xD800 ≤ c) && decide (c ≤ 0xDFFF))

/-- The fragment, Annex B mode: `fragCore false false` (as above, no `\\` and no `[` at all) over the
Basic Multilingual Plane. -/
def inFragLegacy (pat : List Nat) : Bool :=
  fragCore { e := false, k := false } pat && pat.all fun c => decide (c < 0x10000)

/-- The fragment with NAMED GROUPS, UnicodeMode: as `inFragU`, and moreover named groups
`(?<name>…)` and named back-references `\\k<name>` (names are `RegExpIdentifierName`s: `ID_Start` /
`ID_Continue` characters, `$`, `_`, ZWNJ, ZWJ, and `\\uHHHH` / `\\u{…}` escapes of such), under the
lexical side condition that the group names of the pattern (`lexNames`, escapes resolved) are
pairwise distinct. -/
def inFragUNamed (v : Bool) (pat : List Nat) : Bool :=
  fragCore { e := true, k := !v, nm := true } pat &&
    (pat.all fun c => decide (c ≤ 0x10FFFF) && !(decide (0xD800 ≤ c) && decide (c ≤ 0xDFFF))) &&
    decide (lexNames pat).Nodup

/-- The common core of the UnicodeMode theorems. -/
theorem core_u (nm : Bool) (pat : List Nat) (fl : Flags) (hu : (fl.unicode || fl.unicodeSets) = true)
    (hfr : fragCore { e := true, k := !fl.unicodeSets, nm := nm } pat = true)
    (hall : ∀ c ∈ pat, c ≤ 0x10FFFF ∧ ¬ (0xD800 ≤ c ∧ c ≤ 0xDFFF)) (hnd : (lexNames pat).Nodup)
    (hl : withinLimits pat = true) :
    (Parse.parse pat fl).isOk = true ↔ esValid (flagsText fl) pat = true := by
  have hb : Bnd pat := fun c hc => (hall c hc).1
  have hns : ∀ c ∈ pat, ¬ (0xD800 ≤ c ∧ c ≤ 0xDFFF) := fun c hc => (hall c hc).2
  have hch : ∀ c ∈ pat, Parse.isChar c = true := fun c hc => by
    have h1 := (hall c hc).1
    have h2 := hns c hc
    simp only [Parse.isChar, Bool.or_eq_true, Bool.and_eq_true, decide_eq_true_eq]
    omega
  obtain ⟨N, hN, hNok, hp⟩ := parse_isOk_iff { e := true, k := !fl.unicodeSets, nm := nm } pat fl hb hfr
    (fun _ => hch) (by simp) hnd
  have heff : (effFlags fl).unicode = true := by
    unfold effFlags
    cases h1 : fl.unicodeSets <;> simp_all
  have heffv : (effFlags fl).unicodeSets = fl.unicodeSets := by
    unfold effFlags; split <;> rfl
  obtain ⟨h1, _, h3⟩ := frag_core { e := true, k := !fl.unicodeSets, nm := nm }
    { u := true, v := fl.unicodeSets, n := true, feat25 := true, t := tabs } pat (effFlags fl) N
    (by rw [heff]) (.inl ⟨rfl, rfl⟩) (fun _ => heff)
    (fun h => by
      have hv : fl.unicodeSets = false := by simpa using h
      exact ⟨rfl, heff, hv, by rw [heffv, hv]⟩)
    (fun _ => ⟨rfl, rfl⟩)
    (fun _ => hch) hfr hl hN hNok hnd
  rw [hp, h1, esValid_eq]
  have huv : ((fl.unicode && !fl.unicodeSets) || fl.unicodeSets) = true := by
    cases h1 : fl.unicodeSets <;> simp_all
  unfold esValidCore
  rw [if_pos huv, toPoints_id pat hns]
  cases hpp : parsePattern { u := true, v := fl.unicodeSets, n := true, feat25 := true, t := tabs } pat with
  | ok st => simp
  | bad => simp
  | fuel => exact absurd hpp h3

theorem scalar_of_all {pat : List Nat}
    (h : (pat.all fun c => decide (c ≤ 0x10FFFF) && !(decide (0xD800 ≤ c) && decide (c ≤ 0xDFFF))) = true) :
    ∀ c ∈ pat, c ≤ 0x10FFFF ∧ ¬ (0xD800 ≤ c ∧ c ≤ 0xDFFF) := by
  simp only [List.all_eq_true, Bool.and_eq_true, decide_eq_true_eq, Bool.not_eq_true',
    Bool.and_eq_false_iff, decide_eq_false_iff_not] at h
  intro c hc
  obtain ⟨h1, h2⟩ := h c hc
  exact ⟨h1, fun h3 => by rcases h2 with h' | h' <;> omega⟩

/-- **C08 on the fragment, UnicodeMode** (`u` or `v`). -/
theorem C08_fragment_u (pat : List Nat) (fl : Flags) (hu : (fl.unicode || fl.unicodeSets) = true)
    (hf : inFragU fl.unicodeSets pat = true) (hl : withinLimits pat = true) :
    (Parse.parse pat fl).isOk = true ↔ esValid (flagsText fl) pat = true := by
  simp only [inFragU, Bool.and_eq_true] at hf
  obtain ⟨hfr, hall⟩ := hf
  have hnil := lexNames_nil_of_frag _ rfl hfr
  exact core_u false pat fl hu hfr (scalar_of_all hall) (by rw [hnil]; exact List.nodup_nil) hl

/-- **C08 on the fragment with named groups, UnicodeMode** (`u` or `v`); subsumes `C08_fragment_u`
(`inFragU v pat → inFragUNamed v pat`, `inFragU_named`). -/
theorem C08_fragment_u_named (pat : List Nat) (fl : Flags) (hu : (fl.unicode || fl.unicodeSets) = true)
    (hf : inFragUNamed fl.unicodeSets pat = true) (hl : withinLimits pat = true) :
    (Parse.parse pat fl).isOk = true ↔ esValid (flagsText fl) pat = true := by
  simp only [inFragUNamed, Bool.and_eq_true, decide_eq_true_eq] at hf
  obtain ⟨⟨hfr, hall⟩, hnd⟩ := hf
  exact core_u true pat fl hu hfr (scalar_of_all hall) hnd hl

/-- The named fragment contains the unnamed one. -/
theorem parenOk_nm (r : List Nat) (h : parenOk false r = true) : parenOk true r = true := by
  unfold parenOk at h ⊢
  split <;> simp_all

theorem fragGo_nm (e k : Bool) (m : Bool) (l : List Nat)
    (h : fragGo { e := e, k := k } m l = true) : fragGo { e := e, k := k, nm := true } m l = true := by
  fun_induction fragGo { e := e, k := k } m l with
  | case1 => rfl
  | case2 x r ih =>
    rw [fragGo_esc_in]
    simp only [Bool.and_eq_true] at h ⊢
    exact ⟨h.1, ih h.2⟩
  | case3 r ih => rw [fragGo_close]; exact ih h
  | case4 c r h1 h2 ih =>
    rw [fragGo]
    · exact ih h
    · exact h1
    · intro hc; exact h2 hc
  | case5 => rfl
  | case6 x r ih =>
    rw [fragGo_esc_out]
    simp only [Bool.and_eq_true] at h ⊢
    refine ⟨⟨h.1.1, ?_⟩, ih h.2⟩
    have := h.1.2
    simp only [escOk] at this ⊢
    revert this
    cases x == 0x70 <;> cases x == 0x50 <;> cases x == 0x6B <;> simp
  | case7 r ih =>
    rw [fragGo_open]
    simp only [Bool.and_eq_true] at h ⊢
    exact ⟨h.1, ih h.2⟩
  | case8 c r h1 h2 ih =>
    rw [fragGo]
    · simp only [Bool.and_eq_true, Bool.or_eq_true] at h ⊢
      refine ⟨⟨h.1.1, ?_⟩, ih h.2⟩
      rcases h.1.2 with h' | h'
      · exact .inl h'
      · exact .inr (parenOk_nm r h')
    · exact h1
    · intro hc; exact h2 hc

theorem inFragU_named (v : Bool) (pat : List Nat) (h : inFragU v pat = true) :
    inFragUNamed v pat = true := by
  simp only [inFragU, Bool.and_eq_true] at h
  simp only [inFragUNamed, Bool.and_eq_true, decide_eq_true_eq]
  refine ⟨⟨fragGo_nm _ _ _ _ h.1, h.2⟩, ?_⟩
  rw [lexNames_nil_of_frag _ rfl h.1]
  exact List.nodup_nil

/-- **C08 on the fragment, Annex B mode** (neither `u` nor `v`). -/
theorem C08_fragment_legacy (pat : List Nat) (fl : Flags) (hu : fl.unicode = false)
    (hv : fl.unicodeSets = false) (hf : inFragLegacy pat = true) (hl : withinLimits pat = true) :
    (Parse.parse pat fl).isOk = true ↔ esValid (flagsText fl) pat = true := by
  simp only [inFragLegacy, Bool.and_eq_true, List.all_eq_true, decide_eq_true_eq] at hf
  obtain ⟨hfr, hall⟩ := hf
  have hb : Bnd pat := fun c hc => by have := hall c hc; omega
  have hnil := lexNames_nil_of_frag _ rfl hfr
  obtain ⟨N, hN, hNok, hp⟩ := parse_isOk_iff { e := false, k := false } pat fl hb hfr (fun h => by cases h)
    (fun h => by cases h) (by rw [hnil]; exact List.nodup_nil)
  have heff : (effFlags fl).unicode = false := by
    unfold effFlags; simp [hv, hu]
  obtain ⟨h1, h2, h3⟩ := frag_core { e := false, k := false }
    { u := false, v := false, n := false, feat25 := true, t := tabs } pat (effFlags fl) N
    (by rw [heff]) (.inr ⟨rfl, rfl⟩) (fun h => by cases h) (fun h => by cases h) (fun h => by cases h)
    (fun h => by cases h) hfr hl hN hNok (by rw [hnil]; exact List.nodup_nil)
  rw [hp, h1, esValid_eq, hu, hv]
  unfold esValidCore
  simp only [Bool.false_and, Bool.or_self, Bool.false_eq_true, if_false, toUnits_id pat hall]
  cases hpp : parsePattern { u := false, v := false, n := false, feat25 := true, t := tabs } pat with
  | ok st =>
    have : st.names = [] := by
      have := h2 st hpp
      rw [hnil] at this
      simpa using this
    simp [this]
  | bad => simp
  | fuel => exact absurd hpp h3

/-! ## Non-vacuity: kernel-checked members of the fragment, for each error class

`AgreesU p b`: `p` is in the UnicodeMode fragment, within the limits, the crate's parser (flags `u`)
answers `b` and so does the grammar.  The parser side is evaluated by the kernel; the grammar side
follows from the theorem (this also shows that the hypotheses are satisfiable).  Likewise `AgreesL`
for Annex B mode (no flags). -/

/- ASCII pattern literal (a macro, so that no `String` function has to be evaluated by the kernel). -/
open Lean in
local macro "pat!" s:str : term => do
  let cs := s.getString.toList.map (fun c => Syntax.mkNumLit (toString c.toNat))
  `(([$(cs.toArray),*] : List Nat))

def AgreesU (p : List Nat) (b : Bool) : Prop :=
  inFragU false p = true ∧ withinLimits p = true ∧ (Parse.parse p { unicode := true }).isOk = b ∧
    esValid (flagsText { unicode := true }) p = b

def AgreesL (p : List Nat) (b : Bool) : Prop :=
  inFragLegacy p = true ∧ withinLimits p = true ∧ (Parse.parse p {}).isOk = b ∧
    esValid (flagsText {}) p = b

theorem agreesU_of (p : List Nat) (b : Bool)
    (h : (inFragU false p && withinLimits p && ((Parse.parse p { unicode := true }).isOk == b)) = true) :
    AgreesU p b := by
  simp only [Bool.and_eq_true, beq_iff_eq] at h
  obtain ⟨⟨h1, h2⟩, h3⟩ := h
  have := C08_fragment_u p { unicode := true } rfl h1 h2
  refine ⟨h1, h2, h3, ?_⟩
  cases b with
  | true => exact this.1 h3
  | false =>
    cases he : esValid (flagsText { unicode := true }) p with
    | false => rfl
    | true => rw [this.2 he] at h3; cases h3

def AgreesUN (p : List Nat) (b : Bool) : Prop :=
  inFragUNamed false p = true ∧ withinLimits p = true ∧ (Parse.parse p { unicode := true }).isOk = b ∧
    esValid (flagsText { unicode := true }) p = b

theorem agreesUN_of (p : List Nat) (b : Bool)
    (h : (inFragUNamed false p && withinLimits p && ((Parse.parse p { unicode := true }).isOk == b)) = true) :
    AgreesUN p b := by
  simp only [Bool.and_eq_true, beq_iff_eq] at h
  obtain ⟨⟨h1, h2⟩, h3⟩ := h
  have := C08_fragment_u_named p { unicode := true } rfl h1 h2
  refine ⟨h1, h2, h3, ?_⟩
  cases b with
  | true => exact this.1 h3
  | false =>
    cases he : esValid (flagsText { unicode := true }) p with
    | false => rfl
    | true => rw [this.2 he] at h3; cases h3

theorem agreesL_of (p : List Nat) (b : Bool)
    (h : (inFragLegacy p && withinLimits p && ((Parse.parse p {}).isOk == b)) = true) :
    AgreesL p b := by
  simp only [Bool.and_eq_true, beq_iff_eq] at h
  obtain ⟨⟨h1, h2⟩, h3⟩ := h
  have := C08_fragment_legacy p {} rfl rfl h1 h2
  refine ⟨h1, h2, h3, ?_⟩
  cases b with
  | true => exact this.1 h3
  | false =>
    cases he : esValid (flagsText {}) p with
    | false => rfl
    | true => rw [this.2 he] at h3; cases h3

-- UnicodeMode, accepted
example : AgreesU (pat! "") true := agreesU_of _ _ (by decide +kernel)
example : AgreesU (pat! "a|b||c") true := agreesU_of _ _ (by decide +kernel)
example : AgreesU (pat! "^(a)(?:b)*.$") true := agreesU_of _ _ (by decide +kernel)
example : AgreesU (pat! "(?=a)(?!b)(?<=c)(?<!d)e") true := agreesU_of _ _ (by decide +kernel)
example : AgreesU (pat! "a*?b+?c??d{2}e{2,}?f{2,3}?") true := agreesU_of _ _ (by decide +kernel)
example : AgreesU (pat! "(|)") true := agreesU_of _ _ (by decide +kernel)
example : AgreesU (pat! "x{99999999999999999998,99999999999999999999}") true := agreesU_of _ _ (by decide +kernel)
example : AgreesU (pat! "x{99999999999999999999,099999999999999999999}") true := agreesU_of _ _ (by decide +kernel)
-- UnicodeMode, rejected: unbalanced parentheses / stray `)`
example : AgreesU (pat! "(a") false := agreesU_of _ _ (by decide +kernel)
example : AgreesU (pat! "a)") false := agreesU_of _ _ (by decide +kernel)
example : AgreesU (pat! "(?:a|(b)") false := agreesU_of _ _ (by decide +kernel)
-- nothing to repeat
example : AgreesU (pat! "*") false := agreesU_of _ _ (by decide +kernel)
example : AgreesU (pat! "a|+") false := agreesU_of _ _ (by decide +kernel)
example : AgreesU (pat! "a**") false := agreesU_of _ _ (by decide +kernel)
example : AgreesU (pat! "^*") false := agreesU_of _ _ (by decide +kernel)
example : AgreesU (pat! "(?)") false := agreesU_of _ _ (by decide +kernel)
-- quantified look-arounds (not quantifiable under `u`)
example : AgreesU (pat! "(?=a)*") false := agreesU_of _ _ (by decide +kernel)
example : AgreesU (pat! "(?!a){2}") false := agreesU_of _ _ (by decide +kernel)
example : AgreesU (pat! "(?<=a)+") false := agreesU_of _ _ (by decide +kernel)
-- `{` `}` `]` under `u`
example : AgreesU (pat! "{") false := agreesU_of _ _ (by decide +kernel)
example : AgreesU (pat! "a}") false := agreesU_of _ _ (by decide +kernel)
example : AgreesU (pat! "a]") false := agreesU_of _ _ (by decide +kernel)
example : AgreesU (pat! "a{1") false := agreesU_of _ _ (by decide +kernel)
example : AgreesU (pat! "a{,5}") false := agreesU_of _ _ (by decide +kernel)
example : AgreesU (pat! "{1}") false := agreesU_of _ _ (by decide +kernel)
-- reversed bounds, also saturated
example : AgreesU (pat! "a{2,1}") false := agreesU_of _ _ (by decide +kernel)
example : AgreesU (pat! "x{99999999999999999999,99999999999999999998}") false := agreesU_of _ _ (by decide +kernel)
example : AgreesU (pat! "x{18446744073709551616,18446744073709551615}") false := agreesU_of _ _ (by decide +kernel)
-- `(?` followed by something that is neither a group kind nor a modifier
example : AgreesU (pat! "(?") false := agreesU_of _ _ (by decide +kernel)
example : AgreesU (pat! "(?x:a)") false := agreesU_of _ _ (by decide +kernel)

-- UnicodeMode, escapes: accepted
example : AgreesU (pat! "\\d\\D\\s\\S\\w\\W\\b\\B") true := agreesU_of _ _ (by decide +kernel)
example : AgreesU (pat! "\\f\\n\\r\\t\\v\\cA\\cz\\0") true := agreesU_of _ _ (by decide +kernel)
example : AgreesU (pat! "\\x41\\u0041\\u{41}\\u{10FFFF}\\uD83D\\uDE00\\uD83Dx") true := agreesU_of _ _ (by decide +kernel)
example : AgreesU (pat! "\\^\\$\\\\\\.\\*\\+\\?\\(\\)\\[\\]\\{\\}\\|\\/") true := agreesU_of _ _ (by decide +kernel)
example : AgreesU (pat! "(\\))\\(*") true := agreesU_of _ _ (by decide +kernel)
example : AgreesU (pat! "\\d{2,3}?(?:\\w+)") true := agreesU_of _ _ (by decide +kernel)
example : AgreesU (pat! "(a)\\1") true := agreesU_of _ _ (by decide +kernel)          -- back-references
example : AgreesU (pat! "\\2(a)(b)\\1") true := agreesU_of _ _ (by decide +kernel)    -- also forward ones
example : AgreesU (pat! "(a)(?:b)(?=(c))\\2\\02") false := agreesU_of _ _ (by decide +kernel)
example : AgreesU (pat! "(((((((((((a)))))))))))\\11") true := agreesU_of _ _ (by decide +kernel)
-- UnicodeMode, back-references beyond the number of groups (`\(` and `(?:` do not count)
example : AgreesU (pat! "\\1") false := agreesU_of _ _ (by decide +kernel)
example : AgreesU (pat! "(a)\\2") false := agreesU_of _ _ (by decide +kernel)
example : AgreesU (pat! "\\2(a)(?:b)\\(c") false := agreesU_of _ _ (by decide +kernel)
example : AgreesU (pat! "(((((((((((a)))))))))))\\12") false := agreesU_of _ _ (by decide +kernel)
example : AgreesU (pat! "(a)\\99999999999999999999999") false := agreesU_of _ _ (by decide +kernel)
example : AgreesU (pat! "(a)\\1*(b)\\3|c") false := agreesU_of _ _ (by decide +kernel)
-- UnicodeMode (without `v`), character classes: accepted
example : AgreesU (pat! "[abc][^abc][][^]") true := agreesU_of _ _ (by decide +kernel)
example : AgreesU (pat! "[a-z0-9_-]+[-a][a-]") true := agreesU_of _ _ (by decide +kernel)
example : AgreesU (pat! "[\\d\\w-][\\b\\-\\n\\x41-\\u{5A}\\]]") true := agreesU_of _ _ (by decide +kernel)
example : AgreesU (pat! "([(])[)]\\1[[|*+?{}^$.]") true := agreesU_of _ _ (by decide +kernel)
-- character classes: rejected
example : AgreesU (pat! "[a") false := agreesU_of _ _ (by decide +kernel)              -- unterminated
example : AgreesU (pat! "[b-a]") false := agreesU_of _ _ (by decide +kernel)           -- reversed range
example : AgreesU (pat! "[\\d-x]") false := agreesU_of _ _ (by decide +kernel)         -- class escape in a range
example : AgreesU (pat! "[a-\\w]") false := agreesU_of _ _ (by decide +kernel)
example : AgreesU (pat! "[\\c]") false := agreesU_of _ _ (by decide +kernel)
example : AgreesU (pat! "[\\k]") false := agreesU_of _ _ (by decide +kernel)
example : AgreesU (pat! "[\\1]") false := agreesU_of _ _ (by decide +kernel)
example : AgreesU (pat! "[\\B]") false := agreesU_of _ _ (by decide +kernel)
example : AgreesU (pat! "[a]]") false := agreesU_of _ _ (by decide +kernel)            -- lone `]` under `u`
example : AgreesU (pat! "([)]") false := agreesU_of _ _ (by decide +kernel)            -- the `)` is in the class
example : AgreesU (pat! "([)])") true := agreesU_of _ _ (by decide +kernel)
example : AgreesU (pat! "[(]\\1") false := agreesU_of _ _ (by decide +kernel)          -- the `(` is in the class
-- UnicodeMode, escapes: rejected
example : AgreesU (pat! "\\") false := agreesU_of _ _ (by decide +kernel)              -- incomplete
example : AgreesU (pat! "\\a") false := agreesU_of _ _ (by decide +kernel)             -- no identity escape of letters
example : AgreesU (pat! "\\-") false := agreesU_of _ _ (by decide +kernel)
example : AgreesU (pat! "\\c") false := agreesU_of _ _ (by decide +kernel)
example : AgreesU (pat! "\\c1") false := agreesU_of _ _ (by decide +kernel)
example : AgreesU (pat! "\\00") false := agreesU_of _ _ (by decide +kernel)            -- `\0` before a digit
example : AgreesU (pat! "\\x4") false := agreesU_of _ _ (by decide +kernel)
example : AgreesU (pat! "\\xg0") false := agreesU_of _ _ (by decide +kernel)
example : AgreesU (pat! "\\u004") false := agreesU_of _ _ (by decide +kernel)
example : AgreesU (pat! "\\u{}") false := agreesU_of _ _ (by decide +kernel)
example : AgreesU (pat! "\\u{110000}") false := agreesU_of _ _ (by decide +kernel)
example : AgreesU (pat! "\\u{+41}") false := agreesU_of _ _ (by decide +kernel)
example : AgreesU (pat! "\\u{41") false := agreesU_of _ _ (by decide +kernel)
example : AgreesU (pat! "\\b*") false := agreesU_of _ _ (by decide +kernel)            -- `\b` is not quantifiable
example : AgreesU (pat! "\\B{2}") false := agreesU_of _ _ (by decide +kernel)
example : AgreesU (pat! "(\\)") false := agreesU_of _ _ (by decide +kernel)            -- the `)` is escaped

-- Annex B mode, accepted: lone braces / bracket are literals, look-aheads are quantifiable
example : AgreesL (pat! "{") true := agreesL_of _ _ (by decide +kernel)
example : AgreesL (pat! "a}]") true := agreesL_of _ _ (by decide +kernel)
example : AgreesL (pat! "a{1") true := agreesL_of _ _ (by decide +kernel)
example : AgreesL (pat! "a{,5}") true := agreesL_of _ _ (by decide +kernel)
example : AgreesL (pat! "a{1,x}*") true := agreesL_of _ _ (by decide +kernel)
example : AgreesL (pat! "(?=a)*(?!b){2,3}?") true := agreesL_of _ _ (by decide +kernel)
example : AgreesL (pat! "(?<=a){") true := agreesL_of _ _ (by decide +kernel)
-- Annex B mode, rejected
example : AgreesL (pat! "{1}") false := agreesL_of _ _ (by decide +kernel)          -- InvalidBracedQuantifier
example : AgreesL (pat! "a|{2,}") false := agreesL_of _ _ (by decide +kernel)
example : AgreesL (pat! "a{1}{2}") false := agreesL_of _ _ (by decide +kernel)
example : AgreesL (pat! "(?<=a)*") false := agreesL_of _ _ (by decide +kernel)      -- look-behind never quantifiable
example : AgreesL (pat! "(?<!a){2}") false := agreesL_of _ _ (by decide +kernel)
example : AgreesL (pat! "(?=a){2,1}") false := agreesL_of _ _ (by decide +kernel)   -- reversed bounds
example : AgreesL (pat! "a{3,2}?") false := agreesL_of _ _ (by decide +kernel)
example : AgreesL (pat! "(a") false := agreesL_of _ _ (by decide +kernel)
example : AgreesL (pat! "a)") false := agreesL_of _ _ (by decide +kernel)
example : AgreesL (pat! "+") false := agreesL_of _ _ (by decide +kernel)

-- named groups (flag `u`)
example : AgreesUN (pat! "(?<a>x)\\k<a>") true := agreesUN_of _ _ (by decide +kernel)
example : AgreesUN (pat! "\\k<b>(?<a>x)(?<b>y)") true := agreesUN_of _ _ (by decide +kernel)   -- forward reference
example : AgreesUN (pat! "(?<$_a1>x)|(?<A>[\\d-z]){2}\\k<$_a1>\\2") false := agreesUN_of _ _ (by decide +kernel)
example : AgreesUN (pat! "(?<$_a1>x)|(?<A>[\\dz]){2}\\k<$_a1>\\2") true := agreesUN_of _ _ (by decide +kernel)
example : AgreesUN (pat! "(?<\\u0061b>x)\\k<a\\u{62}>") true := agreesUN_of _ _ (by decide +kernel)  -- escapes are resolved
example : AgreesUN (pat! "(?<\\uD835\\uDC9C>x)\\k<\\u{1D49C}>") true := agreesUN_of _ _ (by decide +kernel) -- surrogate pair
example : AgreesUN (pat! "(?<π>x)\\k<π>") true := agreesUN_of _ _ (by decide +kernel)
example : AgreesUN (pat! "(?<a>(?<b>x(?<c>y)))\\k<c>\\3") true := agreesUN_of _ _ (by decide +kernel)
-- dangling references, malformed names
example : AgreesUN (pat! "(?<a>x)\\k<b>") false := agreesUN_of _ _ (by decide +kernel)
example : AgreesUN (pat! "\\k<a>") false := agreesUN_of _ _ (by decide +kernel)
example : AgreesUN (pat! "(?<a>x)\\k") false := agreesUN_of _ _ (by decide +kernel)
example : AgreesUN (pat! "(?<a>x)\\k<a") false := agreesUN_of _ _ (by decide +kernel)
example : AgreesUN (pat! "(?<a>x)\\k<>") false := agreesUN_of _ _ (by decide +kernel)
example : AgreesUN (pat! "(?<>x)") false := agreesUN_of _ _ (by decide +kernel)
example : AgreesUN (pat! "(?<1a>x)") false := agreesUN_of _ _ (by decide +kernel)
example : AgreesUN (pat! "(?<a-b>x)") false := agreesUN_of _ _ (by decide +kernel)
example : AgreesUN (pat! "(?<a") false := agreesUN_of _ _ (by decide +kernel)
example : AgreesUN (pat! "(?<") false := agreesUN_of _ _ (by decide +kernel)
example : AgreesUN (pat! "(?<a\\u003E)") false := agreesUN_of _ _ (by decide +kernel)          -- F36: an escaped `>` does not end a name
example : AgreesUN (pat! "(?<a\\u{110000}>x)") false := agreesUN_of _ _ (by decide +kernel)
example : AgreesUN (pat! "(?<a\\uD800>x)") false := agreesUN_of _ _ (by decide +kernel)         -- lone surrogate escape
example : AgreesUN (pat! "(?<a\\x62>x)") false := agreesUN_of _ _ (by decide +kernel)
example : AgreesUN (pat! "(?<a>x") false := agreesUN_of _ _ (by decide +kernel)
example : AgreesUN (pat! "(?<a>x)*\\k<a>+(?<=\\k<a>)") true := agreesUN_of _ _ (by decide +kernel)
-- the side condition: equal names (here both recognizers reject, but the theorem does not say so)
example : inFragUNamed false (pat! "(?<a>x)(?<a>y)") = false := by decide +kernel
example : inFragUNamed false (pat! "(?<a>x)|(?<\\u0061>y)") = false := by decide +kernel

-- the flag `v` (no classes): the theorem applies as well
example : esValid (flagsText { unicodeSets := true }) (pat! "(a)\\1(?<=b){2,3}") = false := by
  have := C08_fragment_u (pat! "(a)\\1(?<=b){2,3}") { unicodeSets := true } rfl (by decide +kernel) (by decide +kernel)
  have hp : (Parse.parse (pat! "(a)\\1(?<=b){2,3}") { unicodeSets := true }).isOk = false := by decide +kernel
  cases he : esValid (flagsText { unicodeSets := true }) (pat! "(a)\\1(?<=b){2,3}") with
  | false => rfl
  | true => rw [this.2 he] at hp; cases hp
example : esValid (flagsText { unicodeSets := true, icase := true }) (pat! "(a)\\1(?<=b)c{2,3}") = true :=
  (C08_fragment_u (pat! "(a)\\1(?<=b)c{2,3}") { unicodeSets := true, icase := true } rfl (by decide +kernel)
    (by decide +kernel)).1 (by decide +kernel)

/-- The limits are not vacuous either: 255 nested groups are within them (and parse), 256 are not. -/
example : withinLimits (List.replicate 255 0x28 ++ List.replicate 255 0x29) = true ∧
    withinLimits (List.replicate 256 0x28 ++ List.replicate 256 0x29) = false := by decide +kernel

end Regress.C08Frag

#print axioms Regress.C08Frag.C08_fragment_u
#print axioms Regress.C08Frag.C08_fragment_legacy
#print axioms Regress.C08Frag.C08_fragment_u_named
