import Proofs.Lemmas.C08FragDup
/-!
# C08 on a fragment: the crate's parser accepts exactly the valid ECMAScript patterns

`Parse.parse` (the line-by-line model of `parse::try_parse`) and `ESG.esValid` (the ES2025 Pattern
grammar recognizer written from ECMA-262) are two independent recursive descents.  Here they are
PROVED to agree on a lexically defined fragment of the pattern language, in both modes:

    inFrag pat → withinLimits pat → ((Parse.parse pat fl).isOk ↔ esValid (flagsText fl) pat)

* `C08_fragment_u` (flags `u` or `v`): ordinary characters, `.`, `^`, `$`, `|`, capturing groups,
  `(?:…)`, the four look-arounds, the quantifiers `* + ? {n} {n,} {n,m}` with optional `?`
  (reversed bounds, also saturated ones; `{` `}` `]` are errors; look-arounds are not quantifiable),
  all escapes outside classes except `\p \P \k` (class escapes, `\b \B`, control escapes, `\cX`, `\0`,
  `\xHH`, `\uHHHH` with surrogate pairs, `\u{…}`, identity escapes of syntax characters, decimal
  back-references with the "at most the number of groups" early error), and — without `v` —
  character classes without `\p \P` (ranges, class escapes, `\b`, `\-`, the out-of-order and
  class-in-range errors).
* `C08_fragment_u_named` (flags `u` or `v`): all of the above plus NAMED GROUPS `(?<name>…)` and
  named back-references `\k<name>` (also forward and dangling ones: a `\k<name>` without a group of
  that name is an error for both), names being full `RegExpIdentifierName`s (Unicode `ID_Start` /
  `ID_Continue`, `$`, `_`, ZWNJ/ZWJ, `\uHHHH` with surrogate pairs and `\u{…}` escapes; malformed names
  are errors for both), under the lexical side condition that the group names of the pattern
  (`lexNames pat`, escapes resolved) are pairwise distinct (the duplicate-name rule itself is covered by
  the `_ext` theorems).
* `C08_fragment_u_ext` / `C08_fragment_legacy_ext`: the LARGEST fragments proved so far (these grow
  with the stages; the earlier theorems are corollaries, see `inFragU_ext` etc.): moreover MODIFIER
  GROUPS `(?ims-ims:…)` in both modes (`modifiers_sim`: the crate's one-pass scan with an `Option`
  per flag against the grammar's two maximal runs + early errors); under `u`/`v` moreover PROPERTY
  ESCAPES `\p{…}` / `\P{…}` outside and (without `v`) inside classes (`prop_sim`: the crate's
  one-loop scanner over the generated name tables against the grammar's two runs of property
  characters over the Unicode 17 name lists — the equality of the name sets is C11 —, the empty names,
  the six property-name spellings, the seven properties of strings incl. `\P{RGI_Emoji}`); under `v`
  moreover CLASS SETS (`v_all` in `C08FragVCls.lean`: union / `&&` / `--`, nested classes, `\q{…}`,
  ranges of ClassSetCharacters, ClassSetSyntaxCharacters and reserved double punctuators, and the
  MayContainStrings early error of negated classes — the crate's `may_contain_strings` flag is proved
  equal to the grammar's static MayContainStrings at every level); in both modes moreover DUPLICATE GROUP
  NAMES (ES2025: a name may recur in different alternatives).  The grammar's rule is rendered as a lexical
  scanner `scopeOk` (a stack of frames: `|` restores the scope of the start of the disjunction, `)`
  continues with the union over the alternatives) and threaded through the simulation (`Joint.scope`,
  `JointD`): if `scopeOk` accepts, no `addName` of the grammar fails; if it rejects, the grammar rejects
  the pattern (`Out`'s `bad` case, `Γ.B`).  The crate decides on the alternative paths its pre-scan
  records (`check_duplicate_conflicts`, `crateDup`).  That the two lexical verdicts coincide on the
  fragment is `crateDup_eq_scope` (`C08FragDup.lean`): the scanner's scope and frames are characterised
  by the recorded paths — a name is in scope iff one of its paths `conflictsWith` the current stack of
  (group id, alternative index) — and the characterisation is kept through `(`, `|`, `)`.
* `C08_fragment_legacy` (neither `u` nor `v`, Annex B): the same token set without `\` and `[`
  (lone `{` `}` `]` are literals, look-aheads are quantifiable, `InvalidBracedQuantifier`).

Not covered: `\k` together with named groups in Annex B mode, the Annex B escapes of findings F29 / F30 and multi-digit decimal escapes,
lone surrogates under `u` / supplementary code points without `u`.

Definitions (all decidable, all lexical; `Proofs/Lemmas/C08FragDefs.lean`):
* `fragCore ⟨e, k, nm, md⟩` = `fragGo ⟨e, k, nm, md⟩ false`, a two-mode scanner (`e`: escapes admitted, `k`:
  classes admitted, `nm`: named groups and `\k` admitted, `md`: modifier groups admitted); `parenOk`, `escOk` say what may follow `(` and `\`.
* `withinLimits pat` = `md pat ≤ 255 ∧ opens pat ≤ 65535 ∧ quants pat ≤ 65535`: `md` the nesting depth
  of parentheses (escape- and class-aware; the crate's `MAX_NESTING_DEPTH = 256` counts the top-level
  disjunction), `opens` the number of `(` (at least the number of capture groups, limit 65535),
  `quants` the number of characters `* + ? {` (at least the number of quantifiers, limit 65535).
  Under these no `Error::…limit` of the crate is reachable.
* `flagsText fl`: `i`, `m`, `s`, then `v` if `unicode_sets`, else `u` if `unicode`.

Method (`Proofs/Lemmas/C08Frag{Num,Defs,Prop,Esc,Cls,Named,Mods,Leg,VCls,Sim,Top,Dup}.lean`): a simulation of the grammar recognizer
(`disj alt body term quantified atom`) by the crate's descent (`disjLoop termLoop consumeDisjunction
consumeAtom`), by induction on the recognizer's fuel, with the lexical pieces (quantifiers, escapes,
classes, the capture-group pre-scan) related separately.  The two places where the recognizers are
NOT step-for-step aligned are part of the simulation relation: the crate fails on a quantifier after
an assertion where the grammar fails one step later (`TStep`), and the crate checks a decimal escape
against the pre-scan count (and a `\k<name>` against the pre-scan name table) at once where the
grammar checks at the end (`Poisoned`).  The group-name scanners (`tryConsumeName` / `groupName`) are
related in `C08FragNamed.lean`; the pre-scan's name table is `lexNames pat` (`parseCaptureGroups_frag`).
One disagreement was found this way (an escaped `>` ended a group name in the crate, F36); it is fixed
in the crate (89943a9) and the model mirrors the fix.
-/
namespace Regress.C08Frag
open Regress Regress.IR Regress.Parse Regress.ESG

/-- The fragment, UnicodeMode (`v`: the flag `v` is set): `fragCore true (!v)` —
* a `\\` outside a class is followed by anything but `p` `P` (property escapes) and `k` (named
  back-references);
* without `v`, character classes `[…]` (up to the first unescaped `]`) in which no `\\p` / `\\P` occurs;
  with `v`, no `[` at all;
* every `(?` (unescaped, outside classes) is followed by `:`, `=`, `!`, `<=`, `<!`, or by a character
  other than `<` `i` `m` `s` `-`, or by the end of the pattern (the last two are errors for both
  recognizers), i.e. no named groups, no modifiers;
over Unicode scalar values (what a Rust `&str` can contain). -/
def inFragU (v : Bool) (pat : List Nat) : Bool :=
  fragCore { e := true, k := !v } pat &&
    pat.all fun c => decide (c ≤ 0x10FFFF) && !(decide (0xD800 ≤ c) && decide (c ≤ 0xDFFF))

/-- The fragment, Annex B mode: `fragCore false false` (as above, no `\\` and no `[` at all) over the
Basic Multilingual Plane. -/
def inFragLegacy (pat : List Nat) : Bool :=
  fragCore { e := false, k := false } pat && pat.all fun c => decide (c < 0x10000)

/-- The fragment with NAMED GROUPS, UnicodeMode: as `inFragU`, and moreover named groups
`(?<name>…)` and named back-references `\\k<name>` (names are `RegExpIdentifierName`s: `ID_Start` /
`ID_Continue` characters, `$`, `_`, ZWNJ, ZWJ, and `\\uHHHH` / `\\u{…}` escapes of such), under the
lexical side condition that the group names of the pattern (`lexNames`, escapes resolved) are
pairwise distinct. -/
def inFragUNamed (v : Bool) (pat : List Nat) : Bool :=
  fragCore { e := true, k := !v, nm := true } pat &&
    (pat.all fun c => decide (c ≤ 0x10FFFF) && !(decide (0xD800 ≤ c) && decide (c ≤ 0xDFFF))) &&
    decide (lexNames false pat).Nodup

/-- The LARGEST fragment proved so far, UnicodeMode (this definition grows with the stages; the
earlier fragments are contained in it, `inFragU_ext`, `inFragUNamed_ext`): as `inFragUNamed`, and
moreover MODIFIER GROUPS `(?ims-ims:…)` (the early errors — a flag twice, `(?-:`, a second `-` —
are errors for both recognizers) and PROPERTY ESCAPES `\\p{…}` / `\\P{…}` (any text after `\\p`;
ill-formed or unknown ones are errors for both), and — with `v` — CLASS SETS `[…]` with nested classes
(any contents; the scanners `fragGo` / `md` / `capOpens` / `lexNames` follow the bracket nesting like the
crate's pre-scan `skipBracketV`); with `v` the pattern must moreover satisfy `md true pat + brk pat ≤ 255`
(parenthesis depth plus number of `[`: nested classes count towards the crate's nesting limit).
DUPLICATE GROUP NAMES are admitted without any side condition: the grammar's scope rule (as a scanner,
`scopeOk`) and the crate's `check_duplicate_conflicts` on the alternative paths its pre-scan collects
(`crateDup`) are proved to give the same verdict on the fragment (`crateDup_eq_scope`). -/
def inFragUExt (v : Bool) (pat : List Nat) : Bool :=
  fragCore { e := true, k := !v, nm := true, md := true, pr := true, vk := v } pat &&
    (pat.all fun c => decide (c ≤ 0x10FFFF) && !(decide (0xD800 ≤ c) && decide (c ≤ 0xDFFF))) &&
    (!v || decide (md true pat + brk pat ≤ 255))

/-- The LARGEST fragment proved so far, Annex B mode (grows with the stages): as `inFragLegacy`, and
moreover modifier groups `(?ims-ims:…)` and ESCAPES outside classes (Annex B: nothing but a `\\` at
the end of the pattern is an error), except (`legEscOk`) `\\c` not followed by a letter, a decimal
escape of more than one digit, `\\u{` (finding F30) and a `\\uHHHH` lead surrogate directly followed
by `\\u` (F29) — in these the two readers consume different amounts of text —, and CHARACTER CLASSES
(Annex B: class escapes may stand at the ends of a "range", `\\c` + digit or `_`, legacy octal
escapes of any length; out-of-order ranges are errors, the VALUES of the escapes are proved equal),
except (`inClsOk`) classes containing `\\u{` or such a surrogate pair of escapes, or a `\\c` not
followed by a ClassControlLetter; and NAMED GROUPS `(?<name>…)` (also with duplicate names), in patterns
without surrogate code units and without any `\\k` (with named groups the grammar parses twice,
`[~NamedCaptureGroups]` then `[+NamedCaptureGroups]`, which differ in `\\k` only; the crate's single
parse is related to both). -/
def inFragLegacyExt (pat : List Nat) : Bool :=
  (pat.all fun c => decide (c < 0x10000)) &&
  (fragCore { e := false, k := false, md := true, le := true, lk := true } pat ||
    (fragCore { e := false, k := false, nm := true, md := true, le := true, lk := true } pat &&
      (pat.all fun c => !(decide (0xD800 ≤ c) && decide (c ≤ 0xDFFF)))))

/-- The common core of the UnicodeMode theorems. -/
theorem core_u (nm md pr vk : Bool) (pat : List Nat) (fl : Flags) (hu : (fl.unicode || fl.unicodeSets) = true)
    (hvk : vk = true → fl.unicodeSets = true)
    (hfr : fragCore { e := true, k := !fl.unicodeSets, nm := nm, md := md, pr := pr, vk := vk } pat = true)
    (hall : ∀ c ∈ pat, c ≤ 0x10FFFF ∧ ¬ (0xD800 ≤ c ∧ c ≤ 0xDFFF))
    (hl : withinLimits pat = true) (hlv : vk = true → Regress.C08Frag.md true pat + brk pat ≤ 255) :
    (Parse.parse pat fl).isOk = true ↔ esValid (flagsText fl) pat = true := by
  have hb : Bnd pat := fun c hc => (hall c hc).1
  have hns : ∀ c ∈ pat, ¬ (0xD800 ≤ c ∧ c ≤ 0xDFFF) := fun c hc => (hall c hc).2
  have hch : ∀ c ∈ pat, Parse.isChar c = true := fun c hc => by
    have h1 := (hall c hc).1
    have h2 := hns c hc
    simp only [Parse.isChar, Bool.or_eq_true, Bool.and_eq_true, decide_eq_true_eq]
    omega
  have hkf : vk = true → (!fl.unicodeSets) = false := fun h => by rw [hvk h]; rfl
  have hag : scopeOk vk pat = !crateDup fl.unicodeSets pat := by
    rw [crateDup_eq_scope { e := true, k := !fl.unicodeSets, nm := nm, md := md, pr := pr, vk := vk } fl (by simp)
      (fun h => ⟨hvk h, hkf h, rfl⟩) pat hfr (fun _ => hch)]
    simp
  obtain ⟨N, hN, hNok, hp1, hp2⟩ := parse_isOk_iff
    { e := true, k := !fl.unicodeSets, nm := nm, md := md, pr := pr, vk := vk } pat fl hb hfr
    (fun _ => hch) (by simp) (fun h => ⟨hvk h, hkf h, rfl⟩)
  have heff : (effFlags fl).unicode = true := by
    unfold effFlags
    cases h1 : fl.unicodeSets <;> simp_all
  have heffv : (effFlags fl).unicodeSets = fl.unicodeSets := by
    unfold effFlags; split <;> rfl
  obtain ⟨⟨h1, h1'⟩, _, h3⟩ := frag_core { e := true, k := !fl.unicodeSets, nm := nm, md := md, pr := pr, vk := vk }
    { u := true, v := fl.unicodeSets, n := true, feat25 := true, t := tabs } pat (effFlags fl) N
    (by rw [heff]) (fun _ => rfl) (fun _ => heff)
    (fun h => by
      have hv : fl.unicodeSets = false := by simpa using h
      refine ⟨rfl, heff, hv, by rw [heffv, hv], ?_⟩
      cases hk : vk with
      | false => rfl
      | true => rw [hvk hk] at hv; cases hv)
    (fun _ => ⟨rfl, rfl⟩) (fun _ => rfl) (fun _ => ⟨rfl, heffv.symm⟩) (fun h => by cases h) (fun h => by cases h)
    (fun h => ⟨heff, rfl, hvk h, rfl, by rw [heffv]; exact hvk h, hlv h⟩)
    (fun _ => hch) hfr hl hN hNok
  have huv : ((fl.unicode && !fl.unicodeSets) || fl.unicodeSets) = true := by
    cases h1 : fl.unicodeSets <;> simp_all
  rw [esValid_eq]
  unfold esValidCore
  rw [if_pos huv, toPoints_id pat hns]
  cases hcd : crateDup fl.unicodeSets pat with
  | false =>
    -- no conflicting duplicates: the descent decides
    have hso : scopeOk vk pat = true := by rw [hag, hcd]; rfl
    rw [hp1 hcd, h1 hso]
    cases hpp : parsePattern { u := true, v := fl.unicodeSets, n := true, feat25 := true, t := tabs } pat with
    | ok st => simp
    | bad => simp
    | fuel => exact absurd hpp h3
  | true =>
    -- conflicting duplicates: both reject
    have hso : scopeOk vk pat = false := by rw [hag, hcd]; rfl
    rw [hp2 hcd]
    have hno := h1' hso
    cases hpp : parsePattern { u := true, v := fl.unicodeSets, n := true, feat25 := true, t := tabs } pat with
    | ok st => exact absurd ⟨st, hpp⟩ hno
    | bad => simp
    | fuel => exact absurd hpp h3

/-- The common core of the Annex B theorems.  With named groups (`nm`) the grammar parses twice
(B.1.2.9: `[~NamedCaptureGroups]`, and — as the parse contains a GroupName — `[+NamedCaptureGroups]`);
the crate's single parse is related to both. -/
theorem core_legacy (nm md le lk : Bool) (pat : List Nat) (fl : Flags) (hu : fl.unicode = false)
    (hv : fl.unicodeSets = false)
    (hfr : fragCore { e := false, k := false, nm := nm, md := md, le := le, lk := lk } pat = true)
    (hall : ∀ c ∈ pat, c < 0x10000) (hchn : nm = true → ∀ c ∈ pat, Parse.isChar c = true)
    (hl : withinLimits pat = true) :
    (Parse.parse pat fl).isOk = true ↔ esValid (flagsText fl) pat = true := by
  have hb : Bnd pat := fun c hc => by have := hall c hc; omega
  have hag : scopeOk false pat = !crateDup fl.unicodeSets pat := by
    rw [crateDup_eq_scope { e := false, k := false, nm := nm, md := md, le := le, lk := lk } fl (fun _ => hv)
      (fun h => by cases h) pat hfr hchn]
    simp
  obtain ⟨N, hN, hNok, hp1, hp2⟩ := parse_isOk_iff { e := false, k := false, nm := nm, md := md, le := le, lk := lk } pat fl hb hfr
    hchn (fun _ => hv) (fun h => by cases h)
  have heff : (effFlags fl).unicode = false := by
    unfold effFlags; simp [hv, hu]
  have heffv : (effFlags fl).unicodeSets = false := by
    unfold effFlags; simp [hv]
  have hcore : ∀ (n : Bool), (nm = false → n = false) →
      ((scopeOk false pat = true →
        ((∃ nd st1, consumeDisjunction (parseFuel pat)
          { input := pat, flags := effFlags fl, groupCountMax := min (capOpens false pat) Gen.MAX_CAPTURE_GROUPS,
            named := N } = .ok (nd, st1) ∧ st1.input = []) ↔
          ∃ st, parsePattern { u := false, v := false, n := n, feat25 := true, t := tabs } pat = .ok st)) ∧
        (scopeOk false pat = false →
          ¬ ∃ st, parsePattern { u := false, v := false, n := n, feat25 := true, t := tabs } pat = .ok st)) ∧
      (∀ st, parsePattern { u := false, v := false, n := n, feat25 := true, t := tabs } pat = .ok st →
        st.names.reverse = lexNames false pat) ∧
      parsePattern { u := false, v := false, n := n, feat25 := true, t := tabs } pat ≠ .fuel := by
    intro n hn
    exact frag_core { e := false, k := false, nm := nm, md := md, le := le, lk := lk }
      { u := false, v := false, n := n, feat25 := true, t := tabs } pat (effFlags fl) N
      (by rw [heff]) (fun h => by cases h) (fun h => by cases h) (fun h => by cases h) (fun _ => ⟨rfl, rfl⟩)
      (fun _ => rfl) (fun h => by cases h) (fun _ => ⟨heff, heffv, hn⟩) (fun _ => ⟨heff, rfl, heffv, rfl, hn⟩)
      (fun h => by cases h)
      (fun h => by
        rcases h with h | h
        · cases h
        · exact hchn h) hfr hl hN hNok
  obtain ⟨⟨h1, h1'⟩, h2, h3⟩ := hcore false (fun _ => rfl)
  rw [esValid_eq, hu, hv]
  unfold esValidCore
  simp only [Bool.false_and, Bool.or_self, Bool.false_eq_true, if_false, toUnits_id pat hall]
  cases hcd : crateDup fl.unicodeSets pat with
  | true =>
    -- conflicting duplicates: both reject (the grammar already in its first parse)
    have hso : scopeOk false pat = false := by rw [hag, hcd]; rfl
    rw [hp2 hcd]
    have hno := h1' hso
    cases hpp : parsePattern { u := false, v := false, n := false, feat25 := true, t := tabs } pat with
    | fuel => exact absurd hpp h3
    | bad => simp
    | ok st => exact absurd ⟨st, hpp⟩ hno
  | false =>
  have hso : scopeOk false pat = true := by rw [hag, hcd]; rfl
  have h1 := h1 hso
  rw [hp1 hcd]
  cases hpp : parsePattern { u := false, v := false, n := false, feat25 := true, t := tabs } pat with
  | fuel => exact absurd hpp h3
  | bad =>
    rw [h1, hpp]; simp
  | ok st =>
    simp only
    by_cases hemp : st.names.isEmpty = true
    · rw [if_pos hemp, h1, hpp]; simp
    · rw [if_neg hemp]
      -- a GroupName: the second parse decides
      have hnm : nm = true := by
        cases hq : nm with
        | true => rfl
        | false =>
          subst hq
          have := h2 st hpp
          rw [lexNames_nil_of_frag _ rfl hfr] at this
          have : st.names = [] := by simpa using this
          rw [this] at hemp; exact absurd rfl hemp
      obtain ⟨⟨g1, _⟩, _, g3⟩ := hcore true (fun h => by rw [hnm] at h; cases h)
      rw [g1 hso]
      cases hpp1 : parsePattern { u := false, v := false, n := true, feat25 := true, t := tabs } pat with
      | fuel => exact absurd hpp1 g3
      | bad => simp
      | ok st1 => simp

theorem scalar_of_all {pat : List Nat}
    (h : (pat.all fun c => decide (c ≤ 0x10FFFF) && !(decide (0xD800 ≤ c) && decide (c ≤ 0xDFFF))) = true) :
    ∀ c ∈ pat, c ≤ 0x10FFFF ∧ ¬ (0xD800 ≤ c ∧ c ≤ 0xDFFF) := by
  simp only [List.all_eq_true, Bool.and_eq_true, decide_eq_true_eq, Bool.not_eq_true',
    Bool.and_eq_false_iff, decide_eq_false_iff_not] at h
  intro c hc
  obtain ⟨h1, h2⟩ := h c hc
  exact ⟨h1, fun h3 => by rcases h2 with h' | h' <;> omega⟩

/-- **C08 on the fragment, UnicodeMode** (`u` or `v`). -/
theorem C08_fragment_u (pat : List Nat) (fl : Flags) (hu : (fl.unicode || fl.unicodeSets) = true)
    (hf : inFragU fl.unicodeSets pat = true) (hl : withinLimits pat = true) :
    (Parse.parse pat fl).isOk = true ↔ esValid (flagsText fl) pat = true := by
  simp only [inFragU, Bool.and_eq_true] at hf
  obtain ⟨hfr, hall⟩ := hf
  have hnil := lexNames_nil_of_frag _ rfl hfr
  exact core_u false false false false pat fl hu (fun h => by cases h) hfr (scalar_of_all hall)
    hl (fun h => by cases h)

/-- **C08 on the fragment with named groups, UnicodeMode** (`u` or `v`); subsumes `C08_fragment_u`
(`inFragU v pat → inFragUNamed v pat`, `inFragU_named`). -/
theorem C08_fragment_u_named (pat : List Nat) (fl : Flags) (hu : (fl.unicode || fl.unicodeSets) = true)
    (hf : inFragUNamed fl.unicodeSets pat = true) (hl : withinLimits pat = true) :
    (Parse.parse pat fl).isOk = true ↔ esValid (flagsText fl) pat = true := by
  simp only [inFragUNamed, Bool.and_eq_true, decide_eq_true_eq] at hf
  obtain ⟨⟨hfr, hall⟩, hnd⟩ := hf
  exact core_u true false false false pat fl hu (fun h => by cases h) hfr (scalar_of_all hall) hl
    (fun h => by cases h)

/-- **C08 on the largest fragment proved so far, UnicodeMode** (`u` or `v`): named groups, modifier
groups; subsumes `C08_fragment_u` and `C08_fragment_u_named`. -/
theorem C08_fragment_u_ext (pat : List Nat) (fl : Flags) (hu : (fl.unicode || fl.unicodeSets) = true)
    (hf : inFragUExt fl.unicodeSets pat = true) (hl : withinLimits pat = true) :
    (Parse.parse pat fl).isOk = true ↔ esValid (flagsText fl) pat = true := by
  simp only [inFragUExt, Bool.and_eq_true, decide_eq_true_eq, Bool.or_eq_true, Bool.not_eq_true'] at hf
  obtain ⟨⟨hfr, hall⟩, hlv⟩ := hf
  refine core_u true true true fl.unicodeSets pat fl hu id hfr (scalar_of_all hall) hl (fun h => ?_)
  rcases hlv with h' | h'
  · rw [h] at h'; cases h'
  · exact h'

/-- **C08 on the fragment, Annex B mode** (neither `u` nor `v`). -/
theorem C08_fragment_legacy (pat : List Nat) (fl : Flags) (hu : fl.unicode = false)
    (hv : fl.unicodeSets = false) (hf : inFragLegacy pat = true) (hl : withinLimits pat = true) :
    (Parse.parse pat fl).isOk = true ↔ esValid (flagsText fl) pat = true := by
  simp only [inFragLegacy, Bool.and_eq_true, List.all_eq_true, decide_eq_true_eq] at hf
  exact core_legacy false false false false pat fl hu hv hf.1 hf.2 (fun h => by cases h) hl

/-- **C08 on the largest fragment proved so far, Annex B mode**: modifier groups; subsumes
`C08_fragment_legacy`. -/
theorem C08_fragment_legacy_ext (pat : List Nat) (fl : Flags) (hu : fl.unicode = false)
    (hv : fl.unicodeSets = false) (hf : inFragLegacyExt pat = true) (hl : withinLimits pat = true) :
    (Parse.parse pat fl).isOk = true ↔ esValid (flagsText fl) pat = true := by
  simp only [inFragLegacyExt, Bool.and_eq_true, Bool.or_eq_true, List.all_eq_true, decide_eq_true_eq,
    Bool.not_eq_true', Bool.and_eq_false_iff, decide_eq_false_iff_not] at hf
  obtain ⟨hall, hf | ⟨hf, hns⟩⟩ := hf
  · exact core_legacy false true true true pat fl hu hv hf hall (fun h => by cases h) hl
  · refine core_legacy true true true true pat fl hu hv hf hall (fun _ c hc => ?_) hl
    have h1 := hall c hc
    have h2 := hns c hc
    simp only [Parse.isChar, Bool.or_eq_true, Bool.and_eq_true, decide_eq_true_eq]
    omega

/-! ### The fragments are nested -/

theorem parenOk_mono {nm md nm' md' : Bool} (h1 : nm = true → nm' = true) (h2 : md = true → md' = true)
    (r : List Nat) (h : parenOk nm md r = true) : parenOk nm' md' r = true := by
  unfold parenOk at h ⊢
  split
  · simp only [Bool.or_eq_true] at h ⊢
    rcases h with h | h
    · exact .inl h
    · exact .inr (h1 h)
  · exact h1 h
  · simp only [Bool.or_eq_true] at h ⊢
    rcases h with h | h
    · exact .inl h
    · exact .inr (h2 h)
  · rfl

theorem fragGo_mono {F F' : Feat} (he : F.e = true → F'.e = true) (hk : F.k = true → F'.k = true)
    (hnm : F.nm = true → F'.nm = true) (hmd : F.md = true → F'.md = true) (hpr : F.pr = true → F'.pr = true)
    (hle : F.le = true → F'.le = true) (hlk : F.lk = F'.lk) (hvk : F.vk = F'.vk)
    (hnk : F'.le = true ∨ F'.lk = true → F'.nm = F.nm) (m : Nat) (l : List Nat)
    (h : fragGo F m l = true) : fragGo F' m l = true := by
  fun_induction fragGo F m l with
  | case1 => rw [fragGo]
  | case2 d x r ih =>
    rw [fragGo_esc_in, ← hlk]
    simp only [Bool.and_eq_true] at h ⊢
    refine ⟨?_, ih h.2⟩
    have := h.1
    simp only [inClsOk, Bool.and_eq_true, Bool.or_eq_true] at this ⊢
    refine ⟨⟨⟨?_, this.1.1.2⟩, this.1.2⟩, ?_⟩
    · rcases this.1.1.1 with (h' | h') | h'
      · exact .inl (.inl h')
      · exact .inl (.inr (hpr h'))
      · exact .inr h'
    · rcases this.2 with h' | h'
      · cases hl' : F.lk with
        | false => left; simp
        | true =>
          rw [hnk (.inr (by rw [← hlk]; exact hl'))]
          rw [hl'] at h'
          exact .inl h'
      · exact .inr h'
  | case3 d r ih => rw [fragGo_close]; exact ih h
  | case4 d r hv ih =>
    rw [fragGo_nest F' (by rw [← hvk]; exact hv)]; exact ih h
  | case5 d r hv ih =>
    rw [fragGo_in F' d r (by decide) (by decide) (.inl (by rw [← hvk]; simpa using hv))]; exact ih h
  | case6 d c r h1 h2 h3 ih =>
    rw [fragGo]
    · exact ih h
    · exact h1
    · intro hc; exact h2 hc
    · intro hc; exact h3 hc
  | case7 => rfl
  | case8 x r ih =>
    rw [fragGo_esc_out]
    simp only [Bool.or_eq_true, Bool.and_eq_true] at h ⊢
    refine ⟨?_, ih h.2⟩
    rcases h.1 with ⟨h0, h'⟩ | h'
    · left
      refine ⟨he h0, ?_⟩
      rcases h' with h' | h'
      · left
        simp only [escOk] at h' ⊢
        revert h'
        cases hn : F.nm
        · cases x == 0x70 <;> cases x == 0x50 <;> cases x == 0x6B <;> simp
        · rw [hnm hn]; exact id
      · exact .inr ⟨hpr h'.1, h'.2⟩
    · refine .inr ⟨hle h'.1, h'.2.1, ?_⟩
      rw [hnk (.inl (hle h'.1))]
      exact h'.2.2
  | case9 r ih =>
    rw [fragGo_open, ← hlk, ← hvk]
    simp only [Bool.and_eq_true, Bool.or_eq_true] at h ⊢
    refine ⟨?_, ih h.2⟩
    rcases h.1 with (h' | h') | h'
    · exact .inl (.inl (hk h'))
    · exact .inl (.inr h')
    · exact .inr h'
  | case10 c r h1 h2 ih =>
    rw [fragGo]
    · simp only [Bool.and_eq_true, Bool.or_eq_true] at h ⊢
      refine ⟨⟨?_, ?_⟩, ih h.2⟩
      · rcases h.1.1 with (h' | h') | h'
        · exact .inl (.inl h')
        · exact .inl (.inr (he h'))
        · exact .inr (hle h')
      · rcases h.1.2 with h' | h'
        · exact .inl h'
        · exact .inr (parenOk_mono hnm hmd r h')
    · exact h1
    · intro hc; exact h2 hc

theorem fragCore_mono (F F' : Feat) (he : F.e = true → F'.e = true) (hk : F.k = true → F'.k = true)
    (hnm : F.nm = true → F'.nm = true) (hmd : F.md = true → F'.md = true) (hpr : F.pr = true → F'.pr = true)
    (hle : F.le = true → F'.le = true) (hlk : F.lk = F'.lk) (hvk : F.vk = F'.vk)
    (hnk : F'.le = true ∨ F'.lk = true → F'.nm = F.nm) {pat : List Nat}
    (h : fragCore F pat = true) : fragCore F' pat = true :=
  fragGo_mono he hk hnm hmd hpr hle hlk hvk hnk 0 pat h

theorem inFragU_named (v : Bool) (pat : List Nat) (h : inFragU v pat = true) :
    inFragUNamed v pat = true := by
  simp only [inFragU, Bool.and_eq_true] at h
  simp only [inFragUNamed, Bool.and_eq_true, decide_eq_true_eq]
  refine ⟨⟨fragCore_mono { e := true, k := !v } { e := true, k := !v, nm := true } id id (fun _ => rfl) id id id rfl rfl (by rintro (h | h) <;> cases h) h.1, h.2⟩, ?_⟩
  rw [lexNames_nil_of_frag _ rfl h.1]
  exact List.nodup_nil

/-- Without `v` the largest fragment contains the earlier ones.  (With `v` it does so for patterns within
the additional bracket limit of `inFragUExt`; the statement is omitted.) -/
theorem inFragUNamed_ext (pat : List Nat) (h : inFragUNamed false pat = true) :
    inFragUExt false pat = true := by
  simp only [inFragUNamed, Bool.and_eq_true, decide_eq_true_eq] at h
  simp only [inFragUExt, Bool.and_eq_true, Bool.not_false, Bool.true_or, and_true]
  exact ⟨fragCore_mono { e := true, k := !false, nm := true }
    { e := true, k := !false, nm := true, md := true, pr := true, vk := false }
    id id id (fun _ => rfl) (fun _ => rfl) id rfl rfl (by rintro (h | h) <;> cases h) h.1.1, h.1.2⟩

theorem inFragU_ext (pat : List Nat) (h : inFragU false pat = true) : inFragUExt false pat = true :=
  inFragUNamed_ext pat (inFragU_named false pat h)

/-- A pattern of the basic fragment (no `\\`, no `[`) is in every fragment. -/
theorem fragGo_base (F' : Feat) : ∀ (m : Nat) (l : List Nat), m = 0 →
    fragGo { e := false, k := false } m l = true → fragGo F' m l = true := by
  intro m l
  fun_induction fragGo { e := false, k := false } m l with
  | case1 => intro h; cases h
  | case2 d x r ih => intro h; cases h
  | case3 d r ih => intro h; cases h
  | case4 d r hv ih => intro h; cases h
  | case5 d r hv ih => intro h; cases h
  | case6 d c r h1 h2 h3 ih => intro h; cases h
  | case7 => intro _ _; rfl
  | case8 x r ih => intro _ h; simp at h
  | case9 r ih => intro _ h; simp at h
  | case10 c r h1 h2 ih =>
    intro _ h
    simp only [Bool.or_false, Bool.and_eq_true, Bool.or_eq_true, bne_iff_ne, ne_eq] at h
    rw [fragGo]
    · simp only [Bool.and_eq_true, Bool.or_eq_true, bne_iff_ne, ne_eq]
      refine ⟨⟨.inl (.inl h.1.1), ?_⟩, ih rfl h.2⟩
      rcases h.1.2 with h' | h'
      · exact .inl h'
      · exact .inr (parenOk_mono (fun h => by cases h) (fun h => by cases h) r h')
    · exact h1
    · intro hc; exact h2 hc

theorem inFragLegacy_ext (pat : List Nat) (h : inFragLegacy pat = true) : inFragLegacyExt pat = true := by
  simp only [inFragLegacy, Bool.and_eq_true] at h
  simp only [inFragLegacyExt, Bool.and_eq_true, Bool.or_eq_true]
  exact ⟨h.2, .inl (fragGo_base _ 0 pat rfl h.1)⟩

/-! ## Non-vacuity: kernel-checked members of the fragment, for each error class

`AgreesU p b`: `p` is in the UnicodeMode fragment, within the limits, the crate's parser (flags `u`)
answers `b` and so does the grammar.  The parser side is evaluated by the kernel; the grammar side
follows from the theorem (this also shows that the hypotheses are satisfiable).  Likewise `AgreesL`
for Annex B mode (no flags). -/

/- ASCII pattern literal (a macro, so that no `String` function has to be evaluated by the kernel). -/
open Lean in
local macro "pat!" s:str : term => do
  let cs := s.getString.toList.map (fun c => Syntax.mkNumLit (toString c.toNat))
  `(([$(cs.toArray),*] : List Nat))

def AgreesU (p : List Nat) (b : Bool) : Prop :=
  inFragU false p = true ∧ withinLimits p = true ∧ (Parse.parse p { unicode := true }).isOk = b ∧
    esValid (flagsText { unicode := true }) p = b

def AgreesL (p : List Nat) (b : Bool) : Prop :=
  inFragLegacy p = true ∧ withinLimits p = true ∧ (Parse.parse p {}).isOk = b ∧
    esValid (flagsText {}) p = b

theorem agreesU_of (p : List Nat) (b : Bool)
    (h : (inFragU false p && withinLimits p && ((Parse.parse p { unicode := true }).isOk == b)) = true) :
    AgreesU p b := by
  simp only [Bool.and_eq_true, beq_iff_eq] at h
  obtain ⟨⟨h1, h2⟩, h3⟩ := h
  have := C08_fragment_u p { unicode := true } rfl h1 h2
  refine ⟨h1, h2, h3, ?_⟩
  cases b with
  | true => exact this.1 h3
  | false =>
    cases he : esValid (flagsText { unicode := true }) p with
    | false => rfl
    | true => rw [this.2 he] at h3; cases h3

def AgreesUN (p : List Nat) (b : Bool) : Prop :=
  inFragUNamed false p = true ∧ withinLimits p = true ∧ (Parse.parse p { unicode := true }).isOk = b ∧
    esValid (flagsText { unicode := true }) p = b

theorem agreesUN_of (p : List Nat) (b : Bool)
    (h : (inFragUNamed false p && withinLimits p && ((Parse.parse p { unicode := true }).isOk == b)) = true) :
    AgreesUN p b := by
  simp only [Bool.and_eq_true, beq_iff_eq] at h
  obtain ⟨⟨h1, h2⟩, h3⟩ := h
  have := C08_fragment_u_named p { unicode := true } rfl h1 h2
  refine ⟨h1, h2, h3, ?_⟩
  cases b with
  | true => exact this.1 h3
  | false =>
    cases he : esValid (flagsText { unicode := true }) p with
    | false => rfl
    | true => rw [this.2 he] at h3; cases h3

def AgreesUX (p : List Nat) (b : Bool) : Prop :=
  inFragUExt false p = true ∧ withinLimits p = true ∧ (Parse.parse p { unicode := true }).isOk = b ∧
    esValid (flagsText { unicode := true }) p = b

theorem agreesUX_of (p : List Nat) (b : Bool)
    (h : (inFragUExt false p && withinLimits p && ((Parse.parse p { unicode := true }).isOk == b)) = true) :
    AgreesUX p b := by
  simp only [Bool.and_eq_true, beq_iff_eq] at h
  obtain ⟨⟨h1, h2⟩, h3⟩ := h
  have := C08_fragment_u_ext p { unicode := true } rfl h1 h2
  refine ⟨h1, h2, h3, ?_⟩
  cases b with
  | true => exact this.1 h3
  | false =>
    cases he : esValid (flagsText { unicode := true }) p with
    | false => rfl
    | true => rw [this.2 he] at h3; cases h3

/-- Likewise with the flag `v`. -/
def AgreesVX (p : List Nat) (b : Bool) : Prop :=
  inFragUExt true p = true ∧ withinLimits p = true ∧ (Parse.parse p { unicodeSets := true }).isOk = b ∧
    esValid (flagsText { unicodeSets := true }) p = b

theorem agreesVX_of (p : List Nat) (b : Bool)
    (h : (inFragUExt true p && withinLimits p && ((Parse.parse p { unicodeSets := true }).isOk == b)) = true) :
    AgreesVX p b := by
  simp only [Bool.and_eq_true, beq_iff_eq] at h
  obtain ⟨⟨h1, h2⟩, h3⟩ := h
  have := C08_fragment_u_ext p { unicodeSets := true } rfl h1 h2
  refine ⟨h1, h2, h3, ?_⟩
  cases b with
  | true => exact this.1 h3
  | false =>
    cases he : esValid (flagsText { unicodeSets := true }) p with
    | false => rfl
    | true => rw [this.2 he] at h3; cases h3

def AgreesLX (p : List Nat) (b : Bool) : Prop :=
  inFragLegacyExt p = true ∧ withinLimits p = true ∧ (Parse.parse p {}).isOk = b ∧
    esValid (flagsText {}) p = b

theorem agreesLX_of (p : List Nat) (b : Bool)
    (h : (inFragLegacyExt p && withinLimits p && ((Parse.parse p {}).isOk == b)) = true) :
    AgreesLX p b := by
  simp only [Bool.and_eq_true, beq_iff_eq] at h
  obtain ⟨⟨h1, h2⟩, h3⟩ := h
  have := C08_fragment_legacy_ext p {} rfl rfl h1 h2
  refine ⟨h1, h2, h3, ?_⟩
  cases b with
  | true => exact this.1 h3
  | false =>
    cases he : esValid (flagsText {}) p with
    | false => rfl
    | true => rw [this.2 he] at h3; cases h3

theorem agreesL_of (p : List Nat) (b : Bool)
    (h : (inFragLegacy p && withinLimits p && ((Parse.parse p {}).isOk == b)) = true) :
    AgreesL p b := by
  simp only [Bool.and_eq_true, beq_iff_eq] at h
  obtain ⟨⟨h1, h2⟩, h3⟩ := h
  have := C08_fragment_legacy p {} rfl rfl h1 h2
  refine ⟨h1, h2, h3, ?_⟩
  cases b with
  | true => exact this.1 h3
  | false =>
    cases he : esValid (flagsText {}) p with
    | false => rfl
    | true => rw [this.2 he] at h3; cases h3

-- UnicodeMode, accepted
example : AgreesU (pat! "") true := agreesU_of _ _ (by decide +kernel)
example : AgreesU (pat! "a|b||c") true := agreesU_of _ _ (by decide +kernel)
example : AgreesU (pat! "^(a)(?:b)*.$") true := agreesU_of _ _ (by decide +kernel)
example : AgreesU (pat! "(?=a)(?!b)(?<=c)(?<!d)e") true := agreesU_of _ _ (by decide +kernel)
example : AgreesU (pat! "a*?b+?c??d{2}e{2,}?f{2,3}?") true := agreesU_of _ _ (by decide +kernel)
example : AgreesU (pat! "(|)") true := agreesU_of _ _ (by decide +kernel)
example : AgreesU (pat! "x{99999999999999999998,99999999999999999999}") true := agreesU_of _ _ (by decide +kernel)
example : AgreesU (pat! "x{99999999999999999999,099999999999999999999}") true := agreesU_of _ _ (by decide +kernel)
-- UnicodeMode, rejected: unbalanced parentheses / stray `)`
example : AgreesU (pat! "(a") false := agreesU_of _ _ (by decide +kernel)
example : AgreesU (pat! "a)") false := agreesU_of _ _ (by decide +kernel)
example : AgreesU (pat! "(?:a|(b)") false := agreesU_of _ _ (by decide +kernel)
-- nothing to repeat
example : AgreesU (pat! "*") false := agreesU_of _ _ (by decide +kernel)
example : AgreesU (pat! "a|+") false := agreesU_of _ _ (by decide +kernel)
example : AgreesU (pat! "a**") false := agreesU_of _ _ (by decide +kernel)
example : AgreesU (pat! "^*") false := agreesU_of _ _ (by decide +kernel)
example : AgreesU (pat! "(?)") false := agreesU_of _ _ (by decide +kernel)
-- quantified look-arounds (not quantifiable under `u`)
example : AgreesU (pat! "(?=a)*") false := agreesU_of _ _ (by decide +kernel)
example : AgreesU (pat! "(?!a){2}") false := agreesU_of _ _ (by decide +kernel)
example : AgreesU (pat! "(?<=a)+") false := agreesU_of _ _ (by decide +kernel)
-- `{` `}` `]` under `u`
example : AgreesU (pat! "{") false := agreesU_of _ _ (by decide +kernel)
example : AgreesU (pat! "a}") false := agreesU_of _ _ (by decide +kernel)
example : AgreesU (pat! "a]") false := agreesU_of _ _ (by decide +kernel)
example : AgreesU (pat! "a{1") false := agreesU_of _ _ (by decide +kernel)
example : AgreesU (pat! "a{,5}") false := agreesU_of _ _ (by decide +kernel)
example : AgreesU (pat! "{1}") false := agreesU_of _ _ (by decide +kernel)
-- reversed bounds, also saturated
example : AgreesU (pat! "a{2,1}") false := agreesU_of _ _ (by decide +kernel)
example : AgreesU (pat! "x{99999999999999999999,99999999999999999998}") false := agreesU_of _ _ (by decide +kernel)
example : AgreesU (pat! "x{18446744073709551616,18446744073709551615}") false := agreesU_of _ _ (by decide +kernel)
-- `(?` followed by something that is neither a group kind nor a modifier
example : AgreesU (pat! "(?") false := agreesU_of _ _ (by decide +kernel)
example : AgreesU (pat! "(?x:a)") false := agreesU_of _ _ (by decide +kernel)

-- UnicodeMode, escapes: accepted
example : AgreesU (pat! "\\d\\D\\s\\S\\w\\W\\b\\B") true := agreesU_of _ _ (by decide +kernel)
example : AgreesU (pat! "\\f\\n\\r\\t\\v\\cA\\cz\\0") true := agreesU_of _ _ (by decide +kernel)
example : AgreesU (pat! "\\x41\\u0041\\u{41}\\u{10FFFF}\\uD83D\\uDE00\\uD83Dx") true := agreesU_of _ _ (by decide +kernel)
example : AgreesU (pat! "\\^\\$\\\\\\.\\*\\+\\?\\(\\)\\[\\]\\{\\}\\|\\/") true := agreesU_of _ _ (by decide +kernel)
example : AgreesU (pat! "(\\))\\(*") true := agreesU_of _ _ (by decide +kernel)
example : AgreesU (pat! "\\d{2,3}?(?:\\w+)") true := agreesU_of _ _ (by decide +kernel)
example : AgreesU (pat! "(a)\\1") true := agreesU_of _ _ (by decide +kernel)          -- back-references
example : AgreesU (pat! "\\2(a)(b)\\1") true := agreesU_of _ _ (by decide +kernel)    -- also forward ones
example : AgreesU (pat! "(a)(?:b)(?=(c))\\2\\02") false := agreesU_of _ _ (by decide +kernel)
example : AgreesU (pat! "(((((((((((a)))))))))))\\11") true := agreesU_of _ _ (by decide +kernel)
-- UnicodeMode, back-references beyond the number of groups (`\(` and `(?:` do not count)
example : AgreesU (pat! "\\1") false := agreesU_of _ _ (by decide +kernel)
example : AgreesU (pat! "(a)\\2") false := agreesU_of _ _ (by decide +kernel)
example : AgreesU (pat! "\\2(a)(?:b)\\(c") false := agreesU_of _ _ (by decide +kernel)
example : AgreesU (pat! "(((((((((((a)))))))))))\\12") false := agreesU_of _ _ (by decide +kernel)
example : AgreesU (pat! "(a)\\99999999999999999999999") false := agreesU_of _ _ (by decide +kernel)
example : AgreesU (pat! "(a)\\1*(b)\\3|c") false := agreesU_of _ _ (by decide +kernel)
-- UnicodeMode (without `v`), character classes: accepted
example : AgreesU (pat! "[abc][^abc][][^]") true := agreesU_of _ _ (by decide +kernel)
example : AgreesU (pat! "[a-z0-9_-]+[-a][a-]") true := agreesU_of _ _ (by decide +kernel)
example : AgreesU (pat! "[\\d\\w-][\\b\\-\\n\\x41-\\u{5A}\\]]") true := agreesU_of _ _ (by decide +kernel)
example : AgreesU (pat! "([(])[)]\\1[[|*+?{}^$.]") true := agreesU_of _ _ (by decide +kernel)
-- character classes: rejected
example : AgreesU (pat! "[a") false := agreesU_of _ _ (by decide +kernel)              -- unterminated
example : AgreesU (pat! "[b-a]") false := agreesU_of _ _ (by decide +kernel)           -- reversed range
example : AgreesU (pat! "[\\d-x]") false := agreesU_of _ _ (by decide +kernel)         -- class escape in a range
example : AgreesU (pat! "[a-\\w]") false := agreesU_of _ _ (by decide +kernel)
example : AgreesU (pat! "[\\c]") false := agreesU_of _ _ (by decide +kernel)
example : AgreesU (pat! "[\\k]") false := agreesU_of _ _ (by decide +kernel)
example : AgreesU (pat! "[\\1]") false := agreesU_of _ _ (by decide +kernel)
example : AgreesU (pat! "[\\B]") false := agreesU_of _ _ (by decide +kernel)
example : AgreesU (pat! "[a]]") false := agreesU_of _ _ (by decide +kernel)            -- lone `]` under `u`
example : AgreesU (pat! "([)]") false := agreesU_of _ _ (by decide +kernel)            -- the `)` is in the class
example : AgreesU (pat! "([)])") true := agreesU_of _ _ (by decide +kernel)
example : AgreesU (pat! "[(]\\1") false := agreesU_of _ _ (by decide +kernel)          -- the `(` is in the class
-- UnicodeMode, escapes: rejected
example : AgreesU (pat! "\\") false := agreesU_of _ _ (by decide +kernel)              -- incomplete
example : AgreesU (pat! "\\a") false := agreesU_of _ _ (by decide +kernel)             -- no identity escape of letters
example : AgreesU (pat! "\\-") false := agreesU_of _ _ (by decide +kernel)
example : AgreesU (pat! "\\c") false := agreesU_of _ _ (by decide +kernel)
example : AgreesU (pat! "\\c1") false := agreesU_of _ _ (by decide +kernel)
example : AgreesU (pat! "\\00") false := agreesU_of _ _ (by decide +kernel)            -- `\0` before a digit
example : AgreesU (pat! "\\x4") false := agreesU_of _ _ (by decide +kernel)
example : AgreesU (pat! "\\xg0") false := agreesU_of _ _ (by decide +kernel)
example : AgreesU (pat! "\\u004") false := agreesU_of _ _ (by decide +kernel)
example : AgreesU (pat! "\\u{}") false := agreesU_of _ _ (by decide +kernel)
example : AgreesU (pat! "\\u{110000}") false := agreesU_of _ _ (by decide +kernel)
example : AgreesU (pat! "\\u{+41}") false := agreesU_of _ _ (by decide +kernel)
example : AgreesU (pat! "\\u{41") false := agreesU_of _ _ (by decide +kernel)
example : AgreesU (pat! "\\b*") false := agreesU_of _ _ (by decide +kernel)            -- `\b` is not quantifiable
example : AgreesU (pat! "\\B{2}") false := agreesU_of _ _ (by decide +kernel)
example : AgreesU (pat! "(\\)") false := agreesU_of _ _ (by decide +kernel)            -- the `)` is escaped

-- Annex B mode, accepted: lone braces / bracket are literals, look-aheads are quantifiable
example : AgreesL (pat! "{") true := agreesL_of _ _ (by decide +kernel)
example : AgreesL (pat! "a}]") true := agreesL_of _ _ (by decide +kernel)
example : AgreesL (pat! "a{1") true := agreesL_of _ _ (by decide +kernel)
example : AgreesL (pat! "a{,5}") true := agreesL_of _ _ (by decide +kernel)
example : AgreesL (pat! "a{1,x}*") true := agreesL_of _ _ (by decide +kernel)
example : AgreesL (pat! "(?=a)*(?!b){2,3}?") true := agreesL_of _ _ (by decide +kernel)
example : AgreesL (pat! "(?<=a){") true := agreesL_of _ _ (by decide +kernel)
-- Annex B mode, rejected
example : AgreesL (pat! "{1}") false := agreesL_of _ _ (by decide +kernel)          -- InvalidBracedQuantifier
example : AgreesL (pat! "a|{2,}") false := agreesL_of _ _ (by decide +kernel)
example : AgreesL (pat! "a{1}{2}") false := agreesL_of _ _ (by decide +kernel)
example : AgreesL (pat! "(?<=a)*") false := agreesL_of _ _ (by decide +kernel)      -- look-behind never quantifiable
example : AgreesL (pat! "(?<!a){2}") false := agreesL_of _ _ (by decide +kernel)
example : AgreesL (pat! "(?=a){2,1}") false := agreesL_of _ _ (by decide +kernel)   -- reversed bounds
example : AgreesL (pat! "a{3,2}?") false := agreesL_of _ _ (by decide +kernel)
example : AgreesL (pat! "(a") false := agreesL_of _ _ (by decide +kernel)
example : AgreesL (pat! "a)") false := agreesL_of _ _ (by decide +kernel)
example : AgreesL (pat! "+") false := agreesL_of _ _ (by decide +kernel)

-- named groups (flag `u`)
example : AgreesUN (pat! "(?<a>x)\\k<a>") true := agreesUN_of _ _ (by decide +kernel)
example : AgreesUN (pat! "\\k<b>(?<a>x)(?<b>y)") true := agreesUN_of _ _ (by decide +kernel)   -- forward reference
example : AgreesUN (pat! "(?<$_a1>x)|(?<A>[\\d-z]){2}\\k<$_a1>\\2") false := agreesUN_of _ _ (by decide +kernel)
example : AgreesUN (pat! "(?<$_a1>x)|(?<A>[\\dz]){2}\\k<$_a1>\\2") true := agreesUN_of _ _ (by decide +kernel)
example : AgreesUN (pat! "(?<\\u0061b>x)\\k<a\\u{62}>") true := agreesUN_of _ _ (by decide +kernel)  -- escapes are resolved
example : AgreesUN (pat! "(?<\\uD835\\uDC9C>x)\\k<\\u{1D49C}>") true := agreesUN_of _ _ (by decide +kernel) -- surrogate pair
example : AgreesUN (pat! "(?<π>x)\\k<π>") true := agreesUN_of _ _ (by decide +kernel)
example : AgreesUN (pat! "(?<a>(?<b>x(?<c>y)))\\k<c>\\3") true := agreesUN_of _ _ (by decide +kernel)
-- dangling references, malformed names
example : AgreesUN (pat! "(?<a>x)\\k<b>") false := agreesUN_of _ _ (by decide +kernel)
example : AgreesUN (pat! "\\k<a>") false := agreesUN_of _ _ (by decide +kernel)
example : AgreesUN (pat! "(?<a>x)\\k") false := agreesUN_of _ _ (by decide +kernel)
example : AgreesUN (pat! "(?<a>x)\\k<a") false := agreesUN_of _ _ (by decide +kernel)
example : AgreesUN (pat! "(?<a>x)\\k<>") false := agreesUN_of _ _ (by decide +kernel)
example : AgreesUN (pat! "(?<>x)") false := agreesUN_of _ _ (by decide +kernel)
example : AgreesUN (pat! "(?<1a>x)") false := agreesUN_of _ _ (by decide +kernel)
example : AgreesUN (pat! "(?<a-b>x)") false := agreesUN_of _ _ (by decide +kernel)
example : AgreesUN (pat! "(?<a") false := agreesUN_of _ _ (by decide +kernel)
example : AgreesUN (pat! "(?<") false := agreesUN_of _ _ (by decide +kernel)
example : AgreesUN (pat! "(?<a\\u003E)") false := agreesUN_of _ _ (by decide +kernel)          -- F36: an escaped `>` does not end a name
example : AgreesUN (pat! "(?<a\\u{110000}>x)") false := agreesUN_of _ _ (by decide +kernel)
example : AgreesUN (pat! "(?<a\\uD800>x)") false := agreesUN_of _ _ (by decide +kernel)         -- lone surrogate escape
example : AgreesUN (pat! "(?<a\\x62>x)") false := agreesUN_of _ _ (by decide +kernel)
example : AgreesUN (pat! "(?<a>x") false := agreesUN_of _ _ (by decide +kernel)
example : AgreesUN (pat! "(?<a>x)*\\k<a>+(?<=\\k<a>)") true := agreesUN_of _ _ (by decide +kernel)
-- the side condition of `inFragUNamed`: equal names (covered by the `_ext` theorems, see below)
example : inFragUNamed false (pat! "(?<a>x)(?<a>y)") = false := by decide +kernel
example : inFragUNamed false (pat! "(?<a>x)|(?<\\u0061>y)") = false := by decide +kernel

-- duplicate group names (ES2025: allowed in different alternatives)
example : AgreesUX (pat! "(?<a>x)|(?<a>y)") true := agreesUX_of _ _ (by decide +kernel)
example : AgreesUX (pat! "(?<a>x)|(?<\\u0061>y)|(?<\\u{61}>z)") true := agreesUX_of _ _ (by decide +kernel)
example : AgreesUX (pat! "(?:(?<a>x)|(?<a>y))\\k<a>") true := agreesUX_of _ _ (by decide +kernel)
example : AgreesUX (pat! "(?<a>x)|(?<b>(?<a>y)|(?<a>z))") true := agreesUX_of _ _ (by decide +kernel)
example : AgreesUX (pat! "(?:(?<a>x)|(?<b>y))(?:(?<c>z)|(?<c>w))") true := agreesUX_of _ _ (by decide +kernel)
example : AgreesUX (pat! "(?<a>x)(?<a>y)") false := agreesUX_of _ _ (by decide +kernel)          -- same alternative
example : AgreesUX (pat! "(?<a>(?<a>x))") false := agreesUX_of _ _ (by decide +kernel)           -- nested
example : AgreesUX (pat! "(?<a>x|(?<a>y))") false := agreesUX_of _ _ (by decide +kernel)
example : AgreesUX (pat! "(?:(?<a>x)|y)(?<a>z)") false := agreesUX_of _ _ (by decide +kernel)    -- after the disjunction
example : AgreesUX (pat! "(?:(?<a>x)|(?<a>y))(?<a>z)") false := agreesUX_of _ _ (by decide +kernel)
example : AgreesUX (pat! "(?=(?<a>x))|(?<!(?<a>y))") true := agreesUX_of _ _ (by decide +kernel) -- look-arounds do not matter
example : AgreesUX (pat! "(?=(?<a>x))(?<a>y)") false := agreesUX_of _ _ (by decide +kernel)
example : AgreesUX (pat! "((?<a>x)|(?<a>y)") false := agreesUX_of _ _ (by decide +kernel)        -- unbalanced: another error
example : AgreesUX (pat! "(?<a>x))|(?<a>y)") false := agreesUX_of _ _ (by decide +kernel)        -- stray `)`
example : AgreesUX (pat! "(?<a>x)|[(?<a>]|\\(?<a>y)") false := agreesUX_of _ _ (by decide +kernel) -- `(?<a>` in a class / escaped
example : AgreesUX (pat! "(?<a>x)|[(?<a>]") true := agreesUX_of _ _ (by decide +kernel)
example : AgreesVX (pat! "(?<a>[x[y]])|(?<a>[[\\(?<a>]--[z]])") true := agreesVX_of _ _ (by decide +kernel)
example : AgreesVX (pat! "(?<a>[x[y]])(?<a>z)") false := agreesVX_of _ _ (by decide +kernel)

-- modifier groups
example : AgreesUX (pat! "(?i:a)") true := agreesUX_of _ _ (by decide +kernel)
example : AgreesUX (pat! "(?ims:a)(?smi:b)") true := agreesUX_of _ _ (by decide +kernel)
example : AgreesUX (pat! "(?i-m:a)(?-s:.)(?ims-:b)(?i-ms:c)") true := agreesUX_of _ _ (by decide +kernel)
example : AgreesUX (pat! "(?m-i:^a$)+(?s:.)*") true := agreesUX_of _ _ (by decide +kernel)
example : AgreesUX (pat! "(?i:(?<n>a)[b-c])\\k<n>\\1") true := agreesUX_of _ _ (by decide +kernel)
example : AgreesUX (pat! "(?-:a)") false := agreesUX_of _ _ (by decide +kernel)
example : AgreesUX (pat! "(?ii:a)") false := agreesUX_of _ _ (by decide +kernel)
example : AgreesUX (pat! "(?i-i:a)") false := agreesUX_of _ _ (by decide +kernel)
example : AgreesUX (pat! "(?i-m-s:a)") false := agreesUX_of _ _ (by decide +kernel)
example : AgreesUX (pat! "(?s-imm:a)") false := agreesUX_of _ _ (by decide +kernel)
example : AgreesUX (pat! "(?ix:a)") false := agreesUX_of _ _ (by decide +kernel)
example : AgreesUX (pat! "(?i)") false := agreesUX_of _ _ (by decide +kernel)
example : AgreesUX (pat! "(?i") false := agreesUX_of _ _ (by decide +kernel)
example : AgreesUX (pat! "(?i-") false := agreesUX_of _ _ (by decide +kernel)
example : AgreesUX (pat! "(?i:a") false := agreesUX_of _ _ (by decide +kernel)
example : AgreesUX (pat! "(?i:a{2,1})") false := agreesUX_of _ _ (by decide +kernel)
example : AgreesLX (pat! "(?i:a){2}(?-m:$)") true := agreesLX_of _ _ (by decide +kernel)
example : AgreesLX (pat! "(?i:a{)") true := agreesLX_of _ _ (by decide +kernel)
example : AgreesLX (pat! "(?i-i:a)") false := agreesLX_of _ _ (by decide +kernel)
example : AgreesLX (pat! "(?-:a)") false := agreesLX_of _ _ (by decide +kernel)
example : AgreesLX (pat! "(?mm:a)") false := agreesLX_of _ _ (by decide +kernel)

-- property escapes
example : AgreesUX (pat! "\\p{Lu}\\P{Ll}\\p{L}+") true := agreesUX_of _ _ (by decide +kernel)
example : AgreesUX (pat! "\\p{gc=Lu}\\P{General_Category=Letter}") true := agreesUX_of _ _ (by decide +kernel)
example : AgreesUX (pat! "\\p{sc=Greek}\\p{Script=Latin}\\p{scx=Hira}\\P{Script_Extensions=Cyrl}") true := agreesUX_of _ _ (by decide +kernel)
example : AgreesUX (pat! "\\p{ASCII}\\p{Any}\\p{Alphabetic}\\p{Emoji_Presentation}{2}") true := agreesUX_of _ _ (by decide +kernel)
example : AgreesUX (pat! "[\\p{L}\\P{N}a-z][^\\p{sc=Grek}-]") true := agreesUX_of _ _ (by decide +kernel)
example : AgreesUX (pat! "[\\p{L}-z]") false := agreesUX_of _ _ (by decide +kernel)      -- a class in a range
example : AgreesUX (pat! "[a-\\p{L}]") false := agreesUX_of _ _ (by decide +kernel)
example : AgreesUX (pat! "\\p{}") false := agreesUX_of _ _ (by decide +kernel)
example : AgreesUX (pat! "\\p{gc=}") false := agreesUX_of _ _ (by decide +kernel)
example : AgreesUX (pat! "\\p{=Lu}") false := agreesUX_of _ _ (by decide +kernel)
example : AgreesUX (pat! "\\p{Lu") false := agreesUX_of _ _ (by decide +kernel)
example : AgreesUX (pat! "\\p") false := agreesUX_of _ _ (by decide +kernel)
example : AgreesUX (pat! "\\pL") false := agreesUX_of _ _ (by decide +kernel)
example : AgreesUX (pat! "\\p{lu}") false := agreesUX_of _ _ (by decide +kernel)          -- names are case-sensitive
example : AgreesUX (pat! "\\p{gc=Lu=}") false := agreesUX_of _ _ (by decide +kernel)
example : AgreesUX (pat! "\\p{gc=sc=Lu}") false := agreesUX_of _ _ (by decide +kernel)
example : AgreesUX (pat! "\\p{GC=Lu}") false := agreesUX_of _ _ (by decide +kernel)
example : AgreesUX (pat! "\\p{Script}") false := agreesUX_of _ _ (by decide +kernel)
example : AgreesUX (pat! "\\p{gc=Greek}") false := agreesUX_of _ _ (by decide +kernel)
example : AgreesUX (pat! "\\p{sc=Lu}") false := agreesUX_of _ _ (by decide +kernel)
example : AgreesUX (pat! "\\p{L u}") false := agreesUX_of _ _ (by decide +kernel)
example : AgreesUX (pat! "\\p{Greek}") false := agreesUX_of _ _ (by decide +kernel)       -- a script is not a lone name
example : AgreesUX (pat! "\\p{RGI_Emoji}") false := agreesUX_of _ _ (by decide +kernel)   -- properties of strings need `v`
example : AgreesUX (pat! "[\\p{RGI_Emoji}]") false := agreesUX_of _ _ (by decide +kernel)
example : AgreesVX (pat! "\\p{RGI_Emoji}\\p{Basic_Emoji}\\p{Lu}\\P{sc=Grek}") true := agreesVX_of _ _ (by decide +kernel)
example : AgreesVX (pat! "\\P{RGI_Emoji}") false := agreesVX_of _ _ (by decide +kernel)   -- negated property of strings
example : AgreesVX (pat! "(?<n>\\p{L})(?i:\\k<n>)") true := agreesVX_of _ _ (by decide +kernel)

-- Annex B escapes
example : AgreesLX (pat! "\\d\\D\\s\\S\\w\\W\\b\\B") true := agreesLX_of _ _ (by decide +kernel)
example : AgreesLX (pat! "\\f\\n\\r\\t\\v\\cA\\cz\\0\\00\\012\\08\\7\\8\\9") true := agreesLX_of _ _ (by decide +kernel)
example : AgreesLX (pat! "\\x41\\x4\\xzz\\x\\u0041\\u004\\uzzzz\\u") true := agreesLX_of _ _ (by decide +kernel)
example : AgreesLX (pat! "\\a\\e\\g\\k\\k<a>\\p\\P{Lu}\\-\\!\\ \\~\\_") true := agreesLX_of _ _ (by decide +kernel)
example : AgreesLX (pat! "\\^\\$\\.\\*\\+\\?\\(\\)\\[\\]\\{\\}\\|\\/\\\\") true := agreesLX_of _ _ (by decide +kernel)
example : AgreesLX (pat! "(a)\\1\\2\\9(b)") true := agreesLX_of _ _ (by decide +kernel)   -- back-reference / octal / identity
example : AgreesLX (pat! "\\1*(a)\\1{2,3}?\\d+") true := agreesLX_of _ _ (by decide +kernel)
example : AgreesLX (pat! "\\uD83Dx\\uDE00") true := agreesLX_of _ _ (by decide +kernel)
example : AgreesLX (pat! "\\") false := agreesLX_of _ _ (by decide +kernel)
example : AgreesLX (pat! "a\\") false := agreesLX_of _ _ (by decide +kernel)
example : AgreesLX (pat! "(\\)") false := agreesLX_of _ _ (by decide +kernel)
example : AgreesLX (pat! "\\b*") false := agreesLX_of _ _ (by decide +kernel)
example : AgreesLX (pat! "\\x4{2,1}") false := agreesLX_of _ _ (by decide +kernel)
-- excluded lexically (lags between the two readers; findings F29 / F30)
example : inFragLegacyExt (pat! "\\c1") = false ∧ inFragLegacyExt (pat! "\\12") = false ∧
    inFragLegacyExt (pat! "\\377") = false ∧
    inFragLegacyExt (pat! "\\u{41}") = false ∧ inFragLegacyExt (pat! "\\uD83D\\uDE00") = false := by decide +kernel

-- Annex B classes
example : AgreesLX (pat! "[a-z][^a][][^][a-][-a][--][ab]{2}[[]") true := agreesLX_of _ _ (by decide +kernel)
example : AgreesLX (pat! "[\\d-z][a-\\d][\\w-\\s]") true := agreesLX_of _ _ (by decide +kernel)       -- classes in "ranges"
example : AgreesLX (pat! "[\\b\\B\\-\\k\\p{L}\\P\\]\\\\]") true := agreesLX_of _ _ (by decide +kernel)
example : AgreesLX (pat! "[\\cA\\c1\\c_\\ca-\\cz]") true := agreesLX_of _ _ (by decide +kernel)
example : AgreesLX (pat! "[\\x41-\\x5a\\u0041-\\u005A\\101-\\132\\0-\\7\\8\\9\\12\\377\\400]") true := agreesLX_of _ _ (by decide +kernel)
example : AgreesLX (pat! "[(*+?{}|^$.)]+[]-a]") true := agreesLX_of _ _ (by decide +kernel)
example : AgreesLX (pat! "[z-a]") false := agreesLX_of _ _ (by decide +kernel)
example : AgreesLX (pat! "[\\x42-\\x41]") false := agreesLX_of _ _ (by decide +kernel)
example : AgreesLX (pat! "[b-\\101]") false := agreesLX_of _ _ (by decide +kernel)             -- `b` > `\101` = `A`
example : AgreesLX (pat! "[\\u0062-\\x61]") false := agreesLX_of _ _ (by decide +kernel)
example : AgreesLX (pat! "[a") false := agreesLX_of _ _ (by decide +kernel)
example : AgreesLX (pat! "[a-z") false := agreesLX_of _ _ (by decide +kernel)
example : AgreesLX (pat! "[\\]") false := agreesLX_of _ _ (by decide +kernel)
example : AgreesLX (pat! "(?:[a-z]") false := agreesLX_of _ _ (by decide +kernel)
example : inFragLegacyExt (pat! "[\\c]") = false ∧ inFragLegacyExt (pat! "[\\u{41}]") = false ∧
    inFragLegacyExt (pat! "[\\uD83D\\uDE00]") = false := by decide +kernel

-- named groups in Annex B mode (the grammar parses twice)
example : AgreesLX (pat! "(?<a>x)(?<b>y)\\1\\2\\3") true := agreesLX_of _ _ (by decide +kernel)
example : AgreesLX (pat! "(?<a>[a-z\\d]\\d)(?:b)|(?<$_>y)*") true := agreesLX_of _ _ (by decide +kernel)
example : AgreesLX (pat! "(?<\\u0061b>x){2}") true := agreesLX_of _ _ (by decide +kernel)
example : AgreesLX (pat! "(?<a>x") false := agreesLX_of _ _ (by decide +kernel)
example : AgreesLX (pat! "(?<1a>x)") false := agreesLX_of _ _ (by decide +kernel)
example : AgreesLX (pat! "(?<a>x)(?<b>") false := agreesLX_of _ _ (by decide +kernel)
example : AgreesLX (pat! "(?<a>x)(?<>y)") false := agreesLX_of _ _ (by decide +kernel)
example : AgreesLX (pat! "(?<a>x)|(?<a>y)") true := agreesLX_of _ _ (by decide +kernel)           -- duplicate names
example : AgreesLX (pat! "(?:(?<a>x)|(?<a>y)){2}\\2") true := agreesLX_of _ _ (by decide +kernel)
example : AgreesLX (pat! "(?<a>x)(?<a>y)") false := agreesLX_of _ _ (by decide +kernel)
example : AgreesLX (pat! "(?<a>(?:x|(?<a>y)))") false := agreesLX_of _ _ (by decide +kernel)
example : inFragLegacyExt (pat! "(?<a>x)\\k<a>") = false ∧ inFragLegacyExt (pat! "\\k<a>") = true := by
  decide +kernel

-- class sets (flag `v`)
example : AgreesVX (pat! "[a-z][^a-z][][^][abc][a-zA-Z0-9_]+") true := agreesVX_of _ _ (by decide +kernel)
example : AgreesVX (pat! "[[a-z]&&[aeiou]][\\w--\\d][[a-z]--[aeiou]--[x]]") true := agreesVX_of _ _ (by decide +kernel)
example : AgreesVX (pat! "[\\q{abc|d|}][\\q{}][^\\q{a|b}]") true := agreesVX_of _ _ (by decide +kernel)
example : AgreesVX (pat! "[\\p{L}&&\\p{ASCII}][\\p{RGI_Emoji}][\\q{ab}\\p{RGI_Emoji}a-z]") true := agreesVX_of _ _ (by decide +kernel)
example : AgreesVX (pat! "[a&b][[[a]]][^[^[^a]]]") true := agreesVX_of _ _ (by decide +kernel)
example : AgreesVX (pat! "[\\[\\]\\(\\)\\{\\}\\/\\-\\|\\\\][\\b\\&\\!\\#]") true := agreesVX_of _ _ (by decide +kernel)
example : AgreesVX (pat! "[\\u{1F600}-\\u{1F64F}\\x41\\cA\\0\\n]") true := agreesVX_of _ _ (by decide +kernel)
example : AgreesVX (pat! "(?<n>[a[b[c]]])\\k<n>(?i:[\\q{ab}&&\\q{ab|c}])") true := agreesVX_of _ _ (by decide +kernel)
example : AgreesVX (pat! "[[a-z]&&\\q{abc}]") true := agreesVX_of _ _ (by decide +kernel)
-- ... rejected
example : AgreesVX (pat! "[a-z&&[^aeiou]]") false := agreesVX_of _ _ (by decide +kernel)     -- `&&` after a range
example : AgreesVX (pat! "[^\\q{ab}]") false := agreesVX_of _ _ (by decide +kernel)           -- negated class with strings
example : AgreesVX (pat! "[^\\p{RGI_Emoji}]") false := agreesVX_of _ _ (by decide +kernel)
example : AgreesVX (pat! "[^[\\q{ab}]]") false := agreesVX_of _ _ (by decide +kernel)
example : AgreesVX (pat! "[^[\\q{ab}]&&[a]]") true := agreesVX_of _ _ (by decide +kernel)     -- an intersection with a plain class has no strings
example : AgreesVX (pat! "[^[\\q{ab}]--[a]]") false := agreesVX_of _ _ (by decide +kernel)    -- a subtraction keeps them
example : AgreesVX (pat! "[a&&&b]") false := agreesVX_of _ _ (by decide +kernel)
example : AgreesVX (pat! "[a&&b--c]") false := agreesVX_of _ _ (by decide +kernel)
example : AgreesVX (pat! "[a--b&&c]") false := agreesVX_of _ _ (by decide +kernel)
example : AgreesVX (pat! "[a&&]") false := agreesVX_of _ _ (by decide +kernel)
example : AgreesVX (pat! "[&&a]") false := agreesVX_of _ _ (by decide +kernel)
example : AgreesVX (pat! "[z-a]") false := agreesVX_of _ _ (by decide +kernel)
example : AgreesVX (pat! "[a-]") false := agreesVX_of _ _ (by decide +kernel)
example : AgreesVX (pat! "[\\d-z]") false := agreesVX_of _ _ (by decide +kernel)
example : AgreesVX (pat! "[a-\\d]") false := agreesVX_of _ _ (by decide +kernel)
example : AgreesVX (pat! "[a-[b]]") false := agreesVX_of _ _ (by decide +kernel)
example : AgreesVX (pat! "[(]") false := agreesVX_of _ _ (by decide +kernel)
example : AgreesVX (pat! "[a|b]") false := agreesVX_of _ _ (by decide +kernel)
example : AgreesVX (pat! "[!!]") false := agreesVX_of _ _ (by decide +kernel)
example : AgreesVX (pat! "[a") false := agreesVX_of _ _ (by decide +kernel)
example : AgreesVX (pat! "[[a]") false := agreesVX_of _ _ (by decide +kernel)
example : AgreesVX (pat! "[\\q{a]") false := agreesVX_of _ _ (by decide +kernel)
example : AgreesVX (pat! "[\\q]") false := agreesVX_of _ _ (by decide +kernel)
example : AgreesVX (pat! "[\\P{RGI_Emoji}]") false := agreesVX_of _ _ (by decide +kernel)
example : AgreesVX (pat! "a]") false := agreesVX_of _ _ (by decide +kernel)

-- the flag `v` (no classes): the theorem applies as well
example : esValid (flagsText { unicodeSets := true }) (pat! "(a)\\1(?<=b){2,3}") = false := by
  have := C08_fragment_u (pat! "(a)\\1(?<=b){2,3}") { unicodeSets := true } rfl (by decide +kernel) (by decide +kernel)
  have hp : (Parse.parse (pat! "(a)\\1(?<=b){2,3}") { unicodeSets := true }).isOk = false := by decide +kernel
  cases he : esValid (flagsText { unicodeSets := true }) (pat! "(a)\\1(?<=b){2,3}") with
  | false => rfl
  | true => rw [this.2 he] at hp; cases hp
example : esValid (flagsText { unicodeSets := true, icase := true }) (pat! "(a)\\1(?<=b)c{2,3}") = true :=
  (C08_fragment_u (pat! "(a)\\1(?<=b)c{2,3}") { unicodeSets := true, icase := true } rfl (by decide +kernel)
    (by decide +kernel)).1 (by decide +kernel)

/-- The limits are not vacuous either: 255 nested groups are within them (and parse), 256 are not. -/
example : withinLimits (List.replicate 255 0x28 ++ List.replicate 255 0x29) = true ∧
    withinLimits (List.replicate 256 0x28 ++ List.replicate 256 0x29) = false := by decide +kernel

end Regress.C08Frag

#print axioms Regress.C08Frag.C08_fragment_u
#print axioms Regress.C08Frag.C08_fragment_legacy
#print axioms Regress.C08Frag.C08_fragment_u_named
#print axioms Regress.C08Frag.C08_fragment_u_ext
#print axioms Regress.C08Frag.C08_fragment_legacy_ext
