import RegressModel.Api.Threads
import RegressModel.Gen.Inventory
/-!
# C19 — a compiled Regex is immutable and safe to share across threads

The theorem on the model is simple *by design* (and is said to be so in DESIGN.md): in the model a
search step is a function of the shared program and the thread's own executor state, so no
interleaving can matter.  The substance of the check is in the ties that make this model the
right one: the generated type inventory (`Gen.interiorOccurrences`: no `Cell`, `RefCell`,
`UnsafeCell`, `Mutex`, `RwLock`, atomics, `OnceCell/Lock`, `LazyLock`, `static mut`,
`thread_local!`, `Rc` anywhere in the library sources), the compile-time `Send + Sync` assertion
and the multi-thread / reordering stress run of the harness.
-/
namespace Regress.C19
open Regress.Api.Threads

theorem iterate_succ' {σ : Type} (step : σ → σ) (n : Nat) (s : σ) :
    iterate step (n + 1) s = step (iterate step n s) := by
  induction n generalizing s with
  | zero => rfl
  | succ k ih => simp only [iterate] at ih ⊢; exact ih (step s)

/-- **Interleaving is irrelevant.** After any schedule, the state of every thread is what that
thread reaches alone in as many steps as the schedule gave it. -/
theorem interleaving_irrelevant {σ : Type} (step : σ → σ) (sched : List Nat) (sys : List σ) (i : Nat) :
    (runSchedule step sched sys)[i]? = (sys[i]?).map (iterate step (sched.count i)) := by
  induction sched generalizing sys with
  | nil => cases h : sys[i]? <;> simp [runSchedule, iterate, h]
  | cons j sched ih =>
    have hstep : runSchedule step (j :: sched) sys = runSchedule step sched (stepAt step j sys) := rfl
    rw [hstep, ih]
    simp only [stepAt, List.getElem?_modify]
    by_cases hji : j = i
    · subst hji
      simp only [List.count_cons_self, if_true]
      cases sys[j]? with
      | none => rfl
      | some s => simp [iterate]
    · have hc : (j :: sched).count i = sched.count i := by
        simp [List.count_cons, hji]
      simp [hc, hji]

/-- Results of complete runs do not depend on the schedule: two schedules giving every thread the
same number of steps leave the same system state. -/
theorem schedule_independent {σ : Type} (step : σ → σ) (s1 s2 : List Nat) (sys : List σ)
    (h : ∀ i, s1.count i = s2.count i) : runSchedule step s1 sys = runSchedule step s2 sys := by
  apply List.ext_getElem?
  intro i
  rw [interleaving_irrelevant, interleaving_irrelevant, h i]

/-- **History independence.** A query is answered by a fresh executor: its answer is a function of
the query alone, whatever was searched before on the same regex. -/
theorem history_independent {ρ σ α : Type} (e : Engine ρ σ α) (n : Nat) (earlier : List ρ) (q : ρ) :
    (earlier ++ [q]).map (fun r => e.result (iterate e.step n (e.init r)))
      = earlier.map (fun r => e.result (iterate e.step n (e.init r))) ++ [e.result (iterate e.step n (e.init q))] := by
  simp

/-- **The library contains no interior mutability or shared mutable state** (generated inventory
of `src/*.rs`, outside `cfg(regress_verif)` items and test modules). -/
theorem inventory_has_no_interior_mutability : Gen.interiorOccurrences = [] := by decide

-- non-vacuity: three threads, an interleaved schedule
example : runSchedule (· + 1) [0, 2, 0, 1, 2, 2] [10, 20, 30] = [12, 21, 33] := by decide

end Regress.C19

#print axioms Regress.C19.interleaving_irrelevant
#print axioms Regress.C19.schedule_independent
#print axioms Regress.C19.history_independent
#print axioms Regress.C19.inventory_has_no_interior_mutability
