import Proofs.Lemmas.TotalGlue
import Proofs.Lemmas.TotalDepth
/-!
# C07 — constructing a `Regex` never panics and always terminates

Statements about the Lean models of `parse::try_parse` (`Regress.Parse.parse`),
`optimizer::optimize` (`Regress.IR.optimize`), `emit::emit` (`Regress.VM.emit`, including
`startpredicate::predicate_for_re`) and their composition as in `Regex::from_unicode` (`compile`).
In these models every Rust `unwrap`/`expect`/`unreachable!`/`panic!`/`assert!`/index site is an
explicit error result, and every loop/recursion carries fuel whose exhaustion is also an explicit
error result; "never panics and terminates" is: none of these results is reachable.

* `parse_no_panic` (target 1): for every pattern of code points `≤ 0x10FFFF` and all flags, `parse`
  returns `.ok` or a `.syntax`/`.limit` error: no panic site (`consume`'s `unwrap`, `char_node`'s
  "exceeded maximum expansion" — by `C10.expand_le_4` —, the decimal-literal `unwrap`s,
  `split_off(start_offset)`, the `unreachable!`s, the `string_property_sets` index, `reverse_cats` on
  literal bytes, …) is reachable, and the fuel `4·len + 8` (and that of every inner loop) suffices.
* `parser_state_invariant`, `nesting_limit_is_error`, `capture_group_limit_is_error`,
  `loop_limit_is_error`, `deep_nesting_is_limit_error` (target 2): the counters stay within `MAX_NESTING_DEPTH`,
  `MAX_CAPTURE_GROUPS`, `MAX_LOOPS` (so the Rust `usize`/`u32`/`u16` counters cannot wrap), and
  reaching a limit yields `.error (.limit _)`.
* `parse_output` : the IR satisfies `POut` (hence `WF`, `OptIn`, `EmitIn`).
* `optimize_total_of_parse` (target 4), `emit_total_of_parse`, `emit_total_of_optimize`
  (target 5), `compile_total` (target 6).
* `ir_depth_bound` (target 3): the height of the IR is at most
  `MAX_NESTING_DEPTH · (⌊log₂(len+1)⌋ + 4) + 3` (`make_alt` is balanced, `Cat`s are flat).
-/
namespace Regress.C07
open Regress Regress.IR Regress.Parse Regress.VM

/- ASCII pattern literal: `pat! "a|b"` elaborates to the list literal `[97, 124, 98]` of its
code points (a macro, so that no `String` function has to be evaluated by the kernel). -/
open Lean in
local macro "pat!" s:str : term => do
  let cs := s.getString.toList.map (fun c => Syntax.mkNumLit (toString c.toNat))
  `(([$(cs.toArray),*] : List Nat))

/-! ## 1. The parser never panics -/

/-- **`parse` never panics and never runs out of fuel.** -/
theorem parse_no_panic (pat : List Nat) (fl : IR.Flags) (h : ∀ c ∈ pat, c ≤ 0x10FFFF) :
    ∀ site, parse pat fl ≠ .error (.panic site) :=
  (parse_ens pat fl h).not_panic

/-- The same, as a trichotomy. -/
theorem parse_cases (pat : List Nat) (fl : IR.Flags) (h : ∀ c ∈ pat, c ≤ 0x10FFFF) :
    (∃ re, parse pat fl = .ok re ∧ POut re.node) ∨ (∃ msg, parse pat fl = .error (.syntax msg)) ∨
      (∃ msg, parse pat fl = .error (.limit msg)) := by
  have := parse_ens pat fl h
  cases hp : parse pat fl with
  | ok re => rw [hp] at this; exact .inl ⟨re, rfl, this⟩
  | error e =>
    rw [hp] at this
    cases e with
    | «syntax» m => exact .inr (.inl ⟨m, rfl⟩)
    | limit m => exact .inr (.inr ⟨m, rfl⟩)
    | panic s => exact absurd this (by simp)

/-- What the parser guarantees of its output (`POut`: no `ByteSequence`/`ByteSet`/`Loop1CharBody`,
`CharSet`s of 2..4 members, well-formed brackets, `min ≤ max`, exact group ranges in loops and
look-arounds). -/
theorem parse_output {pat : List Nat} {fl : IR.Flags} {re : Regex} (h : ∀ c ∈ pat, c ≤ 0x10FFFF)
    (hp : parse pat fl = .ok re) : POut re.node :=
  (parse_ens pat fl h).ok_of_eq hp

/-- Non-vacuity: an accepted pattern, a syntax error and (below) a limit error all occur. -/
example : (match parse (pat! "(?<n>a|[b-d]){2,3}\\k<n>$") { icase := true } with
    | .ok _ => true | _ => false) = true := by decide +kernel
example : (match parse (pat! "a**") {} with | .error (.syntax _) => true | _ => false) = true := by
  decide +kernel

/-! ## 2. Resource limits are errors; the counters cannot wrap -/

/-- The limits fit the Rust counter types (`depth: usize`, `group_count: u32` compared with a
`u16::MAX` constant, `loop_count: u32`). -/
example : Gen.MAX_NESTING_DEPTH = 256 ∧ Gen.MAX_CAPTURE_GROUPS = 65535 ∧ Gen.MAX_LOOPS = 65535 := by
  decide

/-- **The parser state invariant** (`Inv`: `depth ≤ MAX_NESTING_DEPTH`, `groupCount ≤
MAX_CAPTURE_GROUPS`, `loopCount ≤ MAX_LOOPS`, no empty name-table entry) is preserved by the
descent: whenever `consumeDisjunction` succeeds from a state satisfying it (with the fuel `parse`
provides), the final state satisfies it, `depth` is restored, and the group counter advanced by
exactly the number of capture groups built — no counter ever exceeds its limit, so none wraps. -/
theorem parser_state_invariant (fuel : Nat) (st st' : PState) (n : Node) (hi : Inv st)
    (hf : 4 * st.input.length + 4 ≤ fuel) (h : consumeDisjunction fuel st = .ok (n, st')) :
    Inv st' ∧ st'.depth = st.depth ∧ st'.groupCount = st.groupCount + numGroups n := by
  have h1 : DisjPost st (n, st') := ((descent_all fuel).disj st hi hf).ok_of_eq h
  exact ⟨h1.2.1.inv, h1.2.1.depth, h1.2.2⟩

/-- Exceeding `MAX_NESTING_DEPTH` is the limit error. -/
theorem nesting_limit_is_error (fuel : Nat) (st : PState) (h : st.depth ≥ Gen.MAX_NESTING_DEPTH) :
    consumeDisjunction (fuel + 1) st = .error (.limit "Regular expression is too deeply nested") := by
  rw [consumeDisjunction]
  simp only
  rw [if_pos (by show st.depth + 1 > _; omega)]
  rfl

/-- Exceeding `MAX_CAPTURE_GROUPS` is the limit error (the capturing-group arm of `consume_term`). -/
theorem capture_group_limit_is_error (cd : PState → Res (Node × PState)) (st : PState)
    (result : List Node) (c : Nat) (rest : List Nat) (hinp : st.input = c :: rest)
    (h : st.groupCount ≥ Gen.MAX_CAPTURE_GROUPS) :
    atomCaptureA cd st result = .error (.limit "Capture group count limit exceeded") := by
  unfold atomCaptureA
  rw [consume_eq hinp]
  simp only
  rw [if_pos h]
  rfl

/-- Exceeding `MAX_LOOPS` is the limit error (the quantifier arm of `consume_term`). -/
theorem loop_limit_is_error (fuel : Nat) (st : PState) (result : List Node) (c : Nat) (rest : List Nat)
    (out : AtomOut) (q : Quant) (r : List Nat) (hinp : st.input = c :: rest)
    (hc : (c == 0x29 || c == 0x7C) = false) (ha : consumeAtom fuel st result c = .ok out)
    (hq : quantifier out.st.flags.unicode out.st.input = .ok (some q, r))
    (hall : out.quantifierAllowed = true) (hmm : QuantOk q) (hoff : out.startOffset ≤ out.result.length)
    (hl : out.st.loopCount ≥ Gen.MAX_LOOPS) :
    termLoop (fuel + 1) st result = .error (.limit "Loop count limit exceeded") := by
  rw [termLoop]
  simp only [hinp, hc, ha, hq, hall]
  simp only [gt_iff_lt, Bool.false_eq_true, if_false, Bool.not_true, Nat.not_lt.mpr hoff, hl, if_true]
  split
  · rename_i mx hm
    have := hmm mx hm
    rw [if_neg (by simp only [decide_eq_true_eq]; omega)]
    rfl
  · rfl

/-- A concrete instance: 257 nested groups are rejected with the nesting limit, 256 - 1 are fine. -/
theorem deep_nesting_is_limit_error :
    (match parse (List.replicate 257 0x28 ++ List.replicate 257 0x29) {} with
      | .error (.limit _) => true | _ => false) = true := by decide +kernel

example : (match parse (List.replicate 255 0x28 ++ List.replicate 255 0x29) {} with
      | .ok _ => true | _ => false) = true := by decide +kernel

/-! ## 3. The IR is shallow -/

/-- **The height of the parser's IR** (`Node.height`: the recursion depth of every tree walker —
optimizer passes, start predicate, `drop`) is at most `256 · (⌊log₂(len+1)⌋ + 4) + 3`: per nesting
level (at most `MAX_NESTING_DEPTH`) one balanced `Alt` tree over at most `len + 1` alternatives, one
`Cat`, one `Loop`, one group/look-around node. (A bound `c₁·256 + c₂·log₂(len+1) + c₃` with constant
`c₂` does NOT hold for the count-balanced `make_alt`: heights add up across nesting levels, see
`Regress.Parse.height_adds_up`.) -/
theorem ir_depth_bound (pat : List Nat) (fl : IR.Flags) (re : Regex)
    (hb : ∀ c ∈ pat, c ≤ 0x10FFFF) (h : parse pat fl = .ok re) :
    re.node.height ≤ Gen.MAX_NESTING_DEPTH * (Nat.log2 (pat.length + 1) + 4) + 3 :=
  parse_height pat fl re hb h

/-- `make_alt` builds a balanced tree, `make_cat` a flat one. -/
theorem makeAlt_depth (ns : List Node) :
    (makeAlt ns).height ≤ heightList ns + Nat.log2 ns.length + 2 := makeAlt_height_log ns
theorem makeCat_depth (ns : List Node) : (makeCat ns).height ≤ heightList ns + 1 := makeCat_height ns

/-! ## 4. The optimizer is total on parser output -/

/-- **`optimize` is total on the parser's output**, with the explicit fuel `optFuel`; its result
satisfies `OptOut` (in particular the emitter's precondition). -/
theorem optimize_total_of_parse {pat : List Nat} {fl : IR.Flags} {re : Regex}
    (h : ∀ c ∈ pat, c ≤ 0x10FFFF) (hp : parse pat fl = .ok re) (fuel : Nat)
    (hf : optFuel re.node ≤ fuel) :
    ∃ re', optimize fuel re = .ok re' ∧ OptOut re'.node ∧ numGroups re'.node = numGroups re.node := by
  have ho := parse_output h hp
  obtain ⟨re', e, _⟩ := optimize_total re (POut_optIn ho) fuel hf
  have := optimize_out (POut_optIn ho) (POut_sets ho) e
  exact ⟨re', e, this.1, this.2.1⟩

/-! ## 5. The emitter and the start predicate are total -/

/-- Without optimization (`no_opt`): `emit` succeeds on the parser's output. -/
theorem emit_total_of_parse {pat : List Nat} {fl : IR.Flags} {re : Regex}
    (h : ∀ c ∈ pat, c ≤ 0x10FFFF) (hp : parse pat fl = .ok re) : ∃ prog, emit re = .ok prog :=
  emit_total re (POut_emitIn (parse_output h hp))

/-- `emit` (including `predicate_for_re`) succeeds on the optimizer's output. -/
theorem emit_total_of_optimize {re : Regex} (h : OptOut re.node) : ∃ prog, emit re = .ok prog :=
  emit_total re (OptOut_emitIn h)

/-! ## 6. The pipeline `Regex::from_unicode` -/

/-- Where a failure of the pipeline comes from. -/
inductive CompileErr where
  | parse (e : ParseError)
  | opt (e : OptErr)
  | emit (e : EmitErr)

/-- `Regex::from_unicode(pattern, flags)`: `parse::try_parse`, then `optimizer::optimize` unless
`flags.no_opt`, then `emit::emit`. `fuel` is the fuel of the optimizer model. -/
def compile (fuel : Nat) (pat : List Nat) (fl : IR.Flags) : Except CompileErr Prog :=
  match parse pat fl with
  | .error e => .error (.parse e)
  | .ok ire =>
    match (if !fl.noOpt then optimize fuel ire else .ok ire) with
    | .error e => .error (.opt e)
    | .ok ire =>
      match emit ire with
      | .error e => .error (.emit e)
      | .ok prog => .ok prog

/-- Fuel that suffices for the optimizer on this pattern. -/
def compileFuel (pat : List Nat) (fl : IR.Flags) : Nat :=
  match parse pat fl with
  | .ok re => optFuel re.node
  | .error _ => 0

/-- **`Regex::from_unicode` returns `Ok` or `Err`.** For every pattern of code points `≤ 0x10FFFF`
and all flags, either the pipeline produces a program (the same one for every sufficient optimizer
fuel), or the parser reports a syntax error or a resource-limit error. No panic site of the parser,
optimizer, start-predicate analysis or emitter is reachable and every loop terminates. -/
theorem compile_total (pat : List Nat) (fl : IR.Flags) (h : ∀ c ∈ pat, c ≤ 0x10FFFF) :
    (∃ prog, ∀ fuel, compileFuel pat fl ≤ fuel → compile fuel pat fl = .ok prog) ∨
    (∃ msg, ∀ fuel, compile fuel pat fl = .error (.parse (.syntax msg))) ∨
    (∃ msg, ∀ fuel, compile fuel pat fl = .error (.parse (.limit msg))) := by
  rcases parse_cases pat fl h with ⟨re, hp, ho⟩ | ⟨msg, hp⟩ | ⟨msg, hp⟩
  · left
    cases hno : fl.noOpt with
    | true =>
      obtain ⟨prog, he⟩ := emit_total re (POut_emitIn ho)
      exact ⟨prog, fun fuel _ => by simp [compile, hp, hno, he]⟩
    | false =>
      obtain ⟨re', hopt⟩ := optimize_total' re (POut_optIn ho)
      have hout := (optimize_out (POut_optIn ho) (POut_sets ho) (hopt _ (Nat.le_refl _))).1
      obtain ⟨prog, he⟩ := emit_total re' (OptOut_emitIn hout)
      refine ⟨prog, fun fuel hf => ?_⟩
      have hf' : optFuel re.node ≤ fuel := by simpa [compileFuel, hp] using hf
      simp [compile, hp, hno, hopt fuel hf', he]
  · exact .inr (.inl ⟨msg, fun fuel => by simp [compile, hp]⟩)
  · exact .inr (.inr ⟨msg, fun fuel => by simp [compile, hp]⟩)

/-- Non-vacuity: the pipeline evaluated on a concrete pattern. -/
example : (match compile (compileFuel (pat! "(a|[bc]){2,3}$") {}) (pat! "(a|[bc]){2,3}$") {} with
    | .ok _ => true | _ => false) = true := by decide +kernel

/-- In particular no run of the pipeline ends in a panic or out of fuel. -/
theorem compile_no_panic (pat : List Nat) (fl : IR.Flags) (h : ∀ c ∈ pat, c ≤ 0x10FFFF) (fuel : Nat)
    (hf : compileFuel pat fl ≤ fuel) :
    (∃ prog, compile fuel pat fl = .ok prog) ∨ (∃ msg, compile fuel pat fl = .error (.parse (.syntax msg)))
      ∨ (∃ msg, compile fuel pat fl = .error (.parse (.limit msg))) := by
  rcases compile_total pat fl h with ⟨p, hp⟩ | ⟨m, hm⟩ | ⟨m, hm⟩
  · exact .inl ⟨p, hp fuel hf⟩
  · exact .inr (.inl ⟨m, hm fuel⟩)
  · exact .inr (.inr ⟨m, hm fuel⟩)

end Regress.C07

#print axioms Regress.C07.parse_no_panic
#print axioms Regress.C07.parse_cases
#print axioms Regress.C07.parse_output
#print axioms Regress.C07.parser_state_invariant
#print axioms Regress.C07.nesting_limit_is_error
#print axioms Regress.C07.capture_group_limit_is_error
#print axioms Regress.C07.loop_limit_is_error
#print axioms Regress.C07.deep_nesting_is_limit_error
#print axioms Regress.C07.ir_depth_bound
#print axioms Regress.C07.makeAlt_depth
#print axioms Regress.C07.makeCat_depth
#print axioms Regress.C07.optimize_total_of_parse
#print axioms Regress.C07.emit_total_of_parse
#print axioms Regress.C07.emit_total_of_optimize
#print axioms Regress.C07.compile_total
#print axioms Regress.C07.compile_no_panic
