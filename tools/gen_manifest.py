#!/usr/bin/env python3
"""Regenerates /verif/MANIFEST.json from the check plans in verif.py and the notes below."""
import json, os, sys, subprocess
sys.path.insert(0, "/verif")
import verif

LEVEL_TEXT = {
 "C20": "Theorems (Lean 4) about the model of the repaired RegexSearcher (forward_step / next / next_back transcribed from api.rs), for any context satisfying CtxOK (find_from returns in-range boundary ranges and restarts consistently - what C06/C09 give): the forward steps never hit a panic site, terminate within 2*len+1 steps, tile [0,len) exactly on char boundaries, and their Match steps are exactly the find_iter matches (empty ones included); the backward steps are the reverse of the forward steps; for ANY interleaving of next()/next_back() the steps from the front followed by the reversed steps from the back are a prefix/suffix split of that one list, and after Done every call returns Done. The model of the previous code and its contract violations are kept as closed theorems (Proofs/Lemmas/Regressions.lean). Tied on nightly with the pattern feature: model vs real searcher on 5 interleavings per case, plus str::find/rfind/contains/matches/rmatches/split/rsplit against find_iter.",
 "C14": "Theorems (Lean 4) about the models of Utf16Input / Ucs2Input: round trip on the UTF-16 encoding of scalar text forwards and backwards; on ARBITRARY u16 arrays (lone surrogates included) every decoder stays within the array and moves by 1 or 2 units, none exactly at the ends (no panic site exists: checked get); UCS-2 = UTF-16 when no unit is a surrogate; UTF-8 and UTF-16 boundaries of one text are in a strictly monotone bijection. The run-level agreement is decided per run against the real utf16 build: find_from_utf16 with offsets translated back vs find_from, find_from_ucs2 on BMP text, and arbitrary u16 slices from every start offset (no panic, ranges within the slice).",
 "C01": "The oracle is a Lean 4 transliteration of ECMA-262 (2025) pattern semantics over code points (RegressModel/Spec, written without reading the Rust sources, validated against V8 on 225 000 cases); theorems establish the laws the property's wording relies on (the returned match starts at the least offset >= start at which the anchored ordered search succeeds, with that attempt's end and captures; alternation/sequence associativity; fuel monotonicity). The full statement (implementation = specification for every pattern, haystack, start) is NOT a theorem: it is decided per run by a differential in which the harness generates pattern ASTs, prints them as a pattern string for the implementation and as an AST for the specification, and reports every difference with the concrete input. The executor models (Lean Bt/PikeVM on the dumped bytecode) are tied separately (C02).",
 "C04": "Theorems: (A) for the model of next_match_with_prefix_search any admissible prefix scan returns exactly what the plain scan returns (match, captures and next_start), for an arbitrary matcher; (B) the modelled byte scans return the first index passing the byte test and skip only failing indices; (C) every code point of an interval has its UTF-8 lead byte in the computed first-byte set, and that set is exact. Soundness of the predicate derived from the IR (start_pred_sound) is in the IR-semantics development (Proofs/C04Sem when present); meanwhile it is decided per run by the differential 'with predicate vs StartPredicate::Arbitrary vs PikeVM' on a generator biased towards prefix-relevant first terms, plus the executor tie (Lean backtracker incl. prefilter model on dumped bytecode).",
 "C10": "The property quantifies over a finite domain (pairs of code points x {unicode, legacy}); it is closed in the Lean kernel over FOLDS / TO_UPPERCASE regenerated from src/unicodetables.rs on every run: rows well-formed, fold idempotent, fold classes = Unicode 17 simple-case-folding classes (ICU 78.2 snapshot), unfold_char / add_icase_code_points (compile-time expansion, incl. the stride walk) = match-time folding, class size <= 4, the non-ASCII word-character table, ASCII agreement. The legacy half is proved FALSE with the exact set D of 29 code points where uppercase differs from ES legacy Canonicalize (known finding F8). The engine-level relation is swept for every code point with a non-trivial class (literal, [c], [^c], (c)\\1, \\w, \\b in i / iu / iv).",
 "C19": "Theorem (Lean 4): for any schedule, every thread's executor state is what it reaches alone in as many steps as the schedule gave it (so results are schedule- and history-independent), over a model in which a search step is a function of the shared program and thread-local state. The premises that make this the right model are checked on every run: the translator regenerates an inventory of every interior-mutability / shared-state type occurring in src/*.rs and `decide` proves it empty; rustc checks Send+Sync for Regex, Match, Error, Flags when the harness is built; a stress run compares sequential results with reordered and 16-thread concurrent results on shared and cloned regexes.",
 "C09": "Theorems (Lean 4, all inputs) about the model of exec::Matches and the three next_match loops, parametric in an arbitrary matcher satisfying EnvOK: the iterator equals the lastIndex unfold, results increase, never overlap, number at most len-start+1, the iterator stays exhausted, a start beyond the end yields nothing, and the prefilter is transparent. The model is tied to the code by running model and implementation on attempt tables taken from the real executors (every start offset, both executors).",
 "C11": "The property quantifies over a finite domain (all names x all code points); it is closed exhaustively in the Lean kernel: the name maps and all 368 interval tables are regenerated from src/unicodetables.rs on every run, and `decide +kernel` shows that regress's accepted names and their tables are literally ICU 78.2's (Unicode 17) for lone names, gc=, sc=, scx=; lifted to every name and code point by proved lemmas. The engine path (parser -> bracket -> runtime contains) is tied by dumping the table the real parser builds for every candidate name and sweeping all scalar values through the real matcher.",
 "C12": "Full functional-correctness theorems (all inputs, by induction) for the model of CodePointSet: add, add_one, add_set, inverted, inverted_interval_count, remove, intersect, contains (including std's binary search and equal_range_by transcribed and proved equal to the linear scan). Tied to the code by running the real functions through the cfg(regress_verif) wrappers on random well-formed sets. The parser-level half of the property (class syntax -> set) is covered by differential cases only (see level_note).",
 "C16": "Theorems about the model of Match::{group, groups, named_group, named_groups} (iterator state machines transcribed from api.rs): group(0) is the match, group(i+1)=captures[i], groups() = range :: captures with exact size hints, named_groups yields distinct names in first-occurrence order and agrees with named_group, and a shared name reports the participating group. Tied by running both on matches produced by the real engine.",
 "C17": "Theorems: the model of expand_replacement equals an independent inductive grammar of templates ($$, $N with the 65535 cap, ${name}, unterminated ${, literal), replace_all is splice-and-expand over the match list, unmatched text is preserved, identity replacement is the identity, no match leaves the text unchanged, replace is the first step of replace_all. Tied by running the four real functions on generated (pattern, haystack, template) triples; an independent Rust oracle of the template language is compared too.",
 "C18": "Theorems about the model of escape (the 14-character list is regenerated from api.rs by the translator): only backslashes are inserted, every syntax character is escaped. The behavioural half (escape(s) compiles under all 12 flag sets and finds exactly the occurrences of s) is an exhaustive enumeration of all short strings over the syntax alphabet against substring search - a bounded test, stated as such.",
}
NOTES = {
 "C20": "Needs cargo +nightly (feature pattern); CtxOK is a hypothesis on find_from (discharged for the real engine by C06/C09, here per case by the data). Unsafe-trait obligations of std's Searcher beyond tiling/boundaries are not modelled.",
 "C14": "Proved at decoder level only; the executor run over u16 input is tied by differential (the Lean executor models currently take UTF-8/ASCII input kinds). The utf16 build also changes the emitter (no byte lowering, no prefilter): covered by C15's replay.",
 "C01": "Trusted: the Lean ES specification (Spec/*.lean; V8 as referee where V8 implements the feature; 4 classes of V8 11.3 v-mode defects adjudicated by hand), the AST printer of the harness. Without u/v the specification works on code points, not UTF-16 code units (as the property says). Bounded: the differential explores generated cases only.",
 "C04": "EnvOK / PrefilterAdmissible are hypotheses of (A); admissibility of the real predicate is the part not yet proved (tied by differential). memchr/memmem are modelled as first-occurrence scans.",
 "C10": "Trusted: ICU 78.2 case folding as observed through V8 (oracle/casefold17.json) and the translator. Open known finding F8 (legacy i): identified by the class predicate in known_findings.json; u/v modes are fully proved.",
 "C19": "Not modelled and named as such: the Rust memory model, real thread scheduling, and that the auto traits really hold - the latter is checked by rustc on every build of the harness (assert_send_sync::<Regex/Match/Error>), the former two are only exercised by the 16-thread stress run. The theorem itself is simple by design: in the model a step takes the program as an argument and returns only executor-local state.",
 "C09": "Assumes EnvOK (attempts end within the haystack, next_right_pos progresses) - discharged per case by the data taken from the real executors; the matcher itself is abstract here (its model is the VM files). Model vs code: differential, bounded by the generator.",
 "C11": "Trusted: the ICU 78.2 snapshot as observed through V8 (oracle/props17.json), the translator (its output is cross-checked against the table the real parser builds for every name). Properties of strings (\\p{RGI_Emoji} etc.) are only checked for accept/reject rules, not for content (V8 cannot enumerate them).",
 "C12": "std's Vec/slice operations are modelled as list operations. Only the set algebra is proved; class parsing (consume_bracket, consume_class_set_expression) is not yet modelled.",
 "C16": "group_names is assumed to satisfy NamesOK (empty or one per capture), which the emitter guarantees (debug_assert in emit). NamedGroups::size_hint is proved inexact with duplicate names (ExactSizeIterator contract) - recorded as an observation outside the property.",
 "C17": "&text[a..b] is modelled as a total slice; that the ranges are valid is C06/C09's conclusion (iter_sorted bridge theorem).",
 "C18": "That the escaped pattern parses as the literal depends on the parser, which is not modelled yet: that half is exhaustive-bounded differential only.",
}
checks = []
for pid in sorted(verif.PLANS):
    plan = verif.PLANS[pid]
    if not plan["proofs"] or pid not in LEVEL_TEXT:
        continue
    checks.append({
        "property_id": pid,
        "quick_cmd": "python3 verif.py check %s --tier quick" % pid,
        "thorough_cmd": "python3 verif.py check %s --tier thorough" % pid,
        "evidence_file": "/verif/evidence/%s.json" % pid,
        "replay_cmd_template": "python3 verif.py replay {path}",
        "engine": "lean4+harness",
        "level_claimed": {"category": "proof", "text": LEVEL_TEXT[pid], "design_ref": "DESIGN.md §4 " + pid},
        "level_note": NOTES[pid],
        "technique": plan["technique"],
    })
all_ids = ["C%02d" % i for i in range(1, 21)]
na = [{"property_id": p, "reason": "check not built yet (work in progress; see DESIGN.md §7 order of work) - not a claim that the technique is inapplicable"}
      for p in all_ids if p not in [c['property_id'] for c in checks]]
hooks = subprocess.run(["git", "-C", "/repo", "log", "--format=%h %s"], capture_output=True, text=True).stdout.splitlines()
man = {
 "version": 1,
 "setup_cmd": "python3 verif.py setup",
 "hooks": {
   "guard": "--cfg regress_verif",
   "enable": "RUSTFLAGS='--cfg regress_verif' (set by verif.py when it builds /verif/harness against /repo)",
   "baseline_off_cmd": "cd /repo && cargo nextest run --workspace --no-fail-fast --test-threads 8 --offline || cargo test --workspace --no-fail-fast --offline",
   "source_commits": [l.split()[0] for l in hooks if "verif hooks" in l],
   "add_only": True,
 },
 "engines": [
   {"name": "lean4+harness", "path": "/verif/lean, /verif/harness, /verif/verif.py", "serves_properties": [c["property_id"] for c in checks],
    "kind_free_text": "Lean 4 model + theorems (lake), translator from source, Rust correspondence harness, line-protocol driver"}],
 "checks": checks,
 "not_applicable": na,
 "notes": "fix: commits in /repo are listed in /verif/known_findings.json (status fixed). See DESIGN.md.",
}
json.dump(man, open("/verif/MANIFEST.json", "w"), indent=1)
print("checks:", [c["property_id"] for c in checks])
