// Provenance tool (NOT run by any registered check): produces oracle/casefold17.json from V8/ICU 78.2.
//   scf:    for every code point whose simple-case-folding equivalence class (as observed through /iu) is not a
//           singleton: [c, rep] with rep = the smallest member of the class
//   legacy: for every code point whose ES legacy Canonicalize (toUpperCase unless multi-character or non-ASCII -> ASCII),
//           applied to the code point, is not the identity: [c, canon]
const fs = require('fs');
const out = process.argv[2];
function legacyCanon(c) {
  if (c >= 0xD800 && c <= 0xDFFF) return c;
  const s = String.fromCodePoint(c);
  const u = [...s.toUpperCase()];
  if (u.length !== 1) return c;
  const cu = u[0].codePointAt(0);
  if (c >= 128 && cu < 128) return c;
  return cu;
}
const legacy = [];
for (let c = 0; c <= 0x10FFFF; c++) { const k = legacyCanon(c); if (k !== c) legacy.push([c, k]); }

// candidate universe for scf: everything that changes under any case mapping, plus images
const cand = new Set();
for (let c = 0; c <= 0x10FFFF; c++) {
  if (c >= 0xD800 && c <= 0xDFFF) continue;
  const s = String.fromCodePoint(c);
  const forms = [s.toUpperCase(), s.toLowerCase()];
  let changes = false;
  for (const f of forms) if (f !== s) { changes = true; for (const ch of f) cand.add(ch.codePointAt(0)); }
  if (changes || /\p{CWCF}|\p{CWCM}|\p{CWU}|\p{CWL}|\p{CWT}/u.test(s)) cand.add(c);
}
const cs = [...cand].sort((a, b) => a - b);
// one big string of all candidates; for each c find all d matched by /c/iu
const scf = [];
const esc = c => '\\u{' + c.toString(16) + '}';
for (const c of cs) {
  const re = new RegExp('^' + esc(c) + '$', 'iu');
  let rep = c;
  let n = 0;
  for (const d of cs) { if (re.test(String.fromCodePoint(d))) { n++; if (d < rep) rep = d; } }
  if (n > 1) scf.push([c, rep]);
}
// sanity: a non-candidate never matches a candidate's regex other than itself (spot check on a stride)
let leaks = 0;
for (let d = 0; d <= 0x10FFFF; d += 7) {
  if (cand.has(d) || (d >= 0xD800 && d <= 0xDFFF)) continue;
  const s = String.fromCodePoint(d);
  if (new RegExp('^' + esc(d) + '$', 'iu').test(s) !== true) leaks++;
}
fs.writeFileSync(out, JSON.stringify({ icu: process.versions.icu, unicode: process.versions.unicode, v8: process.versions.v8,
  candidates: cs.length, leaks, scf, legacy }));
console.log('candidates', cs.length, 'scf', scf.length, 'legacy', legacy.length, 'leaks', leaks);
