// Provenance tool (NOT run by any registered check): produces oracle/props17.json and
// oracle/strings17.json from V8's view of ICU (node 20.20.2, V8 11.3, ICU 78.2 = Unicode 17.0).
// usage: node tools/snapshot_icu.js /scratch/names.json /verif/oracle
const fs = require('fs');
const names = JSON.parse(fs.readFileSync(process.argv[2], 'utf8'));
const outdir = process.argv[3];

function accepted(expr, flags) {
  try { new RegExp('\\p{' + expr + '}', flags); return true; } catch (e) { return false; }
}
function intervals(expr) {
  const re = new RegExp('^\\p{' + expr + '}$', 'u');
  const out = [];
  let start = -1;
  for (let c = 0; c <= 0x10FFFF; c++) {
    const t = re.test(String.fromCodePoint(c));
    if (t && start < 0) start = c;
    if (!t && start >= 0) { out.push([start, c - 1]); start = -1; }
  }
  if (start >= 0) out.push([start, 0x10FFFF]);
  return out;
}

// ES2025 table of binary Unicode properties (written from the specification) + aliases
const esBinary = ['ASCII', 'ASCII_Hex_Digit', 'AHex', 'Alphabetic', 'Alpha', 'Any', 'Assigned', 'Bidi_Control', 'Bidi_C',
  'Bidi_Mirrored', 'Bidi_M', 'Case_Ignorable', 'CI', 'Cased', 'Changes_When_Casefolded', 'CWCF', 'Changes_When_Casemapped', 'CWCM',
  'Changes_When_Lowercased', 'CWL', 'Changes_When_NFKC_Casefolded', 'CWKCF', 'Changes_When_Titlecased', 'CWT',
  'Changes_When_Uppercased', 'CWU', 'Dash', 'Default_Ignorable_Code_Point', 'DI', 'Deprecated', 'Dep', 'Diacritic', 'Dia',
  'Emoji', 'Emoji_Component', 'EComp', 'Emoji_Modifier', 'EMod', 'Emoji_Modifier_Base', 'EBase', 'Emoji_Presentation', 'EPres',
  'Extended_Pictographic', 'ExtPict', 'Extender', 'Ext', 'Grapheme_Base', 'Gr_Base', 'Grapheme_Extend', 'Gr_Ext', 'Hex_Digit', 'Hex',
  'IDS_Binary_Operator', 'IDSB', 'IDS_Trinary_Operator', 'IDST', 'ID_Continue', 'IDC', 'ID_Start', 'IDS', 'Ideographic', 'Ideo',
  'Join_Control', 'Join_C', 'Logical_Order_Exception', 'LOE', 'Lowercase', 'Lower', 'Math', 'Noncharacter_Code_Point', 'NChar',
  'Pattern_Syntax', 'Pat_Syn', 'Pattern_White_Space', 'Pat_WS', 'Quotation_Mark', 'QMark', 'Radical', 'Regional_Indicator', 'RI',
  'Sentence_Terminal', 'STerm', 'Soft_Dotted', 'SD', 'Terminal_Punctuation', 'Term', 'Unified_Ideograph', 'UIdeo', 'Uppercase', 'Upper',
  'Variation_Selector', 'VS', 'White_Space', 'space', 'XID_Continue', 'XIDC', 'XID_Start', 'XIDS',
  // properties that exist in Unicode but are NOT in the ES table (must be rejected)
  'Composition_Exclusion', 'CE', 'Expands_On_NFC', 'XO_NFC', 'Full_Composition_Exclusion', 'Comp_Ex', 'Grapheme_Link', 'Gr_Link',
  'Hyphen', 'Other_Alphabetic', 'OAlpha', 'Other_Math', 'OMath', 'Other_Lowercase', 'OLower', 'Other_Uppercase', 'OUpper',
  'Other_ID_Start', 'OIDS', 'Other_ID_Continue', 'OIDC', 'Other_Grapheme_Extend', 'OGr_Ext', 'Other_Default_Ignorable_Code_Point', 'ODI',
  'Prepended_Concatenation_Mark', 'PCM', 'ID_Compat_Math_Start', 'ID_Compat_Math_Continue', 'IDS_Unary_Operator', 'IDSU',
  'Modifier_Combining_Mark', 'MCM', 'InCB', 'Block', 'blk', 'Age', 'Line_Break', 'lb', 'Name', 'na', 'Numeric_Type', 'nt',
  'Script', 'sc', 'Script_Extensions', 'scx', 'General_Category', 'gc', 'Lowercase_Letter_', 'L&', 'LC', 'punct', 'digit', 'cntrl',
  'Combining_Mark', 'Basic_Emoji', 'Emoji_Keycap_Sequence', 'RGI_Emoji', 'RGI_Emoji_Flag_Sequence', 'RGI_Emoji_Modifier_Sequence',
  'RGI_Emoji_Tag_Sequence', 'RGI_Emoji_ZWJ_Sequence', '', ' ', 'alpha', 'ALPHA', 'any', 'ascii', 'Ascii', 'assigned'];

function mutations(n) {
  const out = new Set([n.toLowerCase(), n.toUpperCase(), n.replace(/_/g, ''), n.replace(/_/g, ' '), n + '_', '_' + n, n + ' ',
    ' ' + n, n.slice(0, -1), n + 's', n.replace(/_/g, '-')]);
  if (n.length > 1) out.add(n[0].toLowerCase() + n.slice(1));
  if (n.length > 1) out.add(n[0].toUpperCase() + n.slice(1).toLowerCase());
  out.delete(n);
  return [...out];
}
function brute(maxLen, alphabet) {
  let cur = [''];
  const out = [];
  for (let l = 1; l <= maxLen; l++) {
    const nxt = [];
    for (const p of cur) for (const ch of alphabet) nxt.push(p + ch);
    for (const x of nxt) out.push(x);
    cur = nxt;
  }
  return out;
}
const letters = 'ABCDEFGHIJKLMNOPQRSTUVWXYZabcdefghijklmnopqrstuvwxyz';
const lower = 'abcdefghijklmnopqrstuvwxyz';
const upper = 'ABCDEFGHIJKLMNOPQRSTUVWXYZ';

const cand = { lone: new Set(), gc: new Set(), sc: new Set(), scx: new Set() };
for (const n of [...names.binary, ...names.gc, ...names.script, ...names.string, ...esBinary]) {
  cand.lone.add(n);
  for (const m of mutations(n)) cand.lone.add(m);
}
for (const n of [...names.gc, ...names.binary.slice(0, 20), ...names.script.slice(0, 20)]) {
  cand.gc.add(n);
  for (const m of mutations(n)) cand.gc.add(m);
}
for (const n of [...names.script, ...names.gc.slice(0, 20), ...names.binary.slice(0, 20)]) {
  cand.sc.add(n); cand.scx.add(n);
  for (const m of mutations(n)) { cand.sc.add(m); cand.scx.add(m); }
}
// brute force of short codes: finds every short alias V8 knows (and regress must know too)
const shortAll = brute(2, letters);
// 3-letter: only those V8 accepts are kept (plus all that appear elsewhere)
const found3 = brute(3, letters).filter(n => accepted(n, 'u') || accepted('gc=' + n, 'u'));
for (const n of [...shortAll, ...found3]) { cand.lone.add(n); cand.gc.add(n); }
// 4-letter script codes [A-Z][a-z]{3}
let sc4 = 0;
for (const a of upper) for (const b of lower) for (const c of lower) for (const d of lower) {
  const n = a + b + c + d;
  if (accepted('sc=' + n, 'u') || accepted('scx=' + n, 'u')) { cand.sc.add(n); cand.scx.add(n); sc4++; }
  if (accepted(n, 'u')) cand.lone.add(n);
}
// long script names V8 knows cannot be enumerated; the ones of either side are in cand already.

const entries = [];
const cache = new Map();
const prefix = { lone: '', gc: 'gc=', sc: 'sc=', scx: 'scx=' };
for (const kind of ['lone', 'gc', 'sc', 'scx']) {
  for (const n of [...cand[kind]].sort()) {
    if (/[{}\\]/.test(n)) continue;
    const expr = prefix[kind] + n;
    const acc = accepted(expr, 'u');
    const e = { kind, name: n, accepted: acc };
    if (acc) {
      e.intervals = intervals(expr);
    }
    entries.push(e);
  }
}
// property-name prefixes: which spellings of the name part are accepted
const prefixNames = ['General_Category', 'gc', 'Script', 'sc', 'Script_Extensions', 'scx', 'General_category', 'GC', 'script',
  'Scx', 'scriptextensions', 'Block', 'blk', 'Age', 'category', 'Category', 'Script_Extension', 'Lowercase', 'Alphabetic', ''];
const prefixEntries = prefixNames.map(p => ({
  name: p,
  accepted_gc: accepted(p + '=Lu', 'u'),
  accepted_sc: accepted(p + '=Latin', 'u'),
}));
fs.writeFileSync(outdir + '/props17.json', JSON.stringify({
  icu: process.versions.icu, unicode: process.versions.unicode, v8: process.versions.v8, node: process.version,
  note: 'V8 view of ICU data: acceptance under /u and the code points matched by \\p{..}/u over 0..0x10FFFF',
  script_codes_found: sc4, prefixes: prefixEntries, entries,
}));
console.log('entries', entries.length, 'accepted', entries.filter(e => e.accepted).length, 'sc4', sc4);
