#!/bin/bash
# usage: confirm_seeded.sh <worktree> <outdir>   — confirm a seeded change: suite passes with it, demo fails with it and passes without
set -u
WT=$1; OUT=$2
cd $WT || exit 2
git checkout -q -- . ; rm -f tests/demo.rs
export CARGO_TARGET_DIR=$WT/target CARGO_NET_OFFLINE=true
git apply $OUT/patch.diff || { echo "PATCH DOES NOT APPLY"; exit 2; }
echo "== build+suite with change"
cargo test --workspace --offline 2>&1 | grep -E "^test result|FAILED|failed|error" | sort | uniq -c | head -20
cp $OUT/demo.rs tests/demo.rs
echo "== demo with change (expect failure)"
cargo test --offline --test demo 2>&1 | grep -E "^test result|^test .* (ok|FAILED)|error" | head
git checkout -q -- .
echo "== demo without change (expect pass)"
cargo test --offline --test demo 2>&1 | grep -E "^test result|^test .* (ok|FAILED)|error" | head
rm -f tests/demo.rs
