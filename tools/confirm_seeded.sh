#!/bin/bash
# usage: confirm_seeded.sh <worktree> <outdir>   — confirm a seeded change: suite passes with it, demo fails with it and passes without
set -u
WT=$1; OUT=$2
cd $WT || exit 2
git checkout -q -- . ; rm -f tests/demo.rs
export CARGO_TARGET_DIR=$WT/target CARGO_NET_OFFLINE=true
git apply $OUT/patch.diff || { echo "PATCH DOES NOT APPLY"; exit 2; }
S=$(cargo test --workspace --offline 2>&1)
echo "suite with change: $(echo "$S" | grep -c '^test result: ok') ok result lines, $(echo "$S" | grep -c '^test result: FAILED') FAILED result lines, $(echo "$S" | grep -E '^test result' | sed -E 's/.* ([0-9]+) passed.*/\1/' | paste -sd+ | bc) passed, compile errors: $(echo "$S" | grep -c '^error')"
cp $OUT/demo.rs tests/demo.rs
D=$(cargo test --offline --test demo 2>&1)
echo "demo with change   : $(echo "$D" | grep -E '^test result' | head -1)"
git checkout -q -- .
D=$(cargo test --offline --test demo 2>&1)
echo "demo without change: $(echo "$D" | grep -E '^test result' | head -1)"
rm -f tests/demo.rs
