#!/bin/bash
# usage: try_seeded_iso.sh <name> <patch.diff> <Cxx> [<Cxx>…]
# Like try_seeded.sh, but against private copies (/scratch/iso/<name>/{repo,verif}) so that /repo and /verif stay
# untouched (a long run may be using them). The copies are removed afterwards.
set -u
N=$1; P=$2; shift 2
D=/scratch/iso/$N
rm -rf $D; mkdir -p $D
rsync -a --exclude target /repo/ $D/repo/
rsync -a --exclude .git --exclude replays --exclude '.build/runs' /verif/ $D/verif/
sed -i "s#path = \"/repo\"#path = \"$D/repo\"#" $D/verif/harness/Cargo.toml
grep -rl '"/repo"' $D/verif/harness/*.toml $D/verif/harness/.cargo 2>/dev/null
git -C $D/repo apply $P || { echo "PATCH DOES NOT APPLY"; rm -rf $D; exit 2; }
for c in "$@"; do
  echo "---- $c"
  (cd $D/verif && REGRESS_REPO=$D/repo timeout 3000 python3 verif.py check $c 2>&1 | grep -v "^KNOWN-FINDING" | tail -4 | sed "s#$D##g")
done
mkdir -p /verif/.build/iso_replays/$N; cp $D/verif/replays/*.json /verif/.build/iso_replays/$N/ 2>/dev/null
rm -rf $D
