// Provenance tool (NOT run by any registered check): produces oracle/strings17.json — V8's (ICU 78.2 = Unicode 17.0)
// verdict on a candidate universe of code point sequences for the seven ES properties of strings.
// usage: node tools/snapshot_strings.js <candidates.json> <out.json>
//   candidates.json: { "<Property>": [[cp, cp, …], …], … }
const fs = require('fs');
const cands = JSON.parse(fs.readFileSync(process.argv[2], 'utf8'));
const out = { icu: process.versions.icu, unicode: process.versions.unicode, v8: process.versions.v8, node: process.version,
  note: "verdict[i] = 1 iff /^\\p{Property}$/v matches candidate i as a whole; candidates are the crate's table members, their proper prefixes, members with U+FE0F removed or appended, all 26x26 regional-indicator pairs, keycap bases with and without U+FE0F",
  properties: {} };
for (const prop of Object.keys(cands)) {
  const re = new RegExp('^\\p{' + prop + '}$', 'v');
  const verdicts = cands[prop].map(s => re.test(String.fromCodePoint(...s)) ? 1 : 0);
  out.properties[prop] = { candidates: cands[prop].map(s => s.map(c => c.toString(16)).join(' ')), verdicts: verdicts.join('') };
}
fs.writeFileSync(process.argv[3], JSON.stringify(out));
console.log(Object.keys(out.properties).map(p => p + ':' + cands[p].length).join(' '));
