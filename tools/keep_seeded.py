#!/usr/bin/env python3
"""keep_seeded.py <name> <outdir> <property> <caught_by> <notes> — archive a confirmed seeded change under /verif/seeded/<name>/"""
import json, os, shutil, sys
name, outdir, prop, caught, notes = sys.argv[1:6]
d = os.path.join("/verif/seeded", name)
os.makedirs(d, exist_ok=True)
for f in ("patch.diff", "demo.rs"):
    shutil.copy(os.path.join(outdir, f), os.path.join(d, f))
meta = json.load(open(os.path.join(outdir, "meta.json")))
meta["property"] = prop
meta["confirmed_by_coordinator"] = {
    "how": "tools/confirm_seeded.sh in a scratch worktree: patch applies, `cargo test --workspace --offline` all ok with the change, demo.rs fails with the change and passes without",
    "checks_run_against_it": "tools/try_seeded.sh (git -C /repo apply; python3 verif.py check …; git -C /repo checkout -- .)",
    "caught_by": caught,
    "notes": notes,
}
json.dump(meta, open(os.path.join(d, "meta.json"), "w"), indent=1)
print("kept", d)
