#!/bin/bash
# usage: try_seeded.sh <patch.diff> <Cxx> [<Cxx>…] — apply a seeded change to /repo, run the checks, undo it
set -u
P=$1; shift
git -C /repo status --short | grep -q . && { echo "/repo not clean"; exit 2; }
git -C /repo apply $P || { echo "PATCH DOES NOT APPLY"; exit 2; }
rm -rf /verif/.build/evidence_backup && cp -r /verif/evidence /verif/.build/evidence_backup
for c in "$@"; do
  echo "---- $c"
  (cd /verif && python3 verif.py check $c 2>&1 | tail -6)
done
git -C /repo checkout -- .
rm -rf /verif/evidence && mv /verif/.build/evidence_backup /verif/evidence
(cd /verif && python3 -c "import verif; verif.translate()" >/dev/null 2>&1)
git -C /repo status --short
