#!/usr/bin/env python3
"""Translator: regress source (data tables, constants, inventories) -> Lean 4 definitions.

Regenerated on every run of every check.  Fails closed: anything expected and not found, or not
parseable, raises TranslateError, which the orchestrator reports as a broken tie.

Output directory: /verif/lean/RegressModel/Gen/
  Tables.lean     every `const NAME: [Interval; N]` of unicodetables.rs and charclasses.rs as one packed Nat
  Folds.lean      FOLDS and TO_UPPERCASE as packed quadruples; nonascii_folds_to_ascii_word_char arms
  Names.lean      the four `*_from_str` name tables resolved to table constants, and property-name table
  Strings.lean    the string-property tables (packed)
  Consts.lean     numeric limits and the escape character list
  Inventory.lean  type inventory for C19
  Oracle.lean     the committed ICU/Unicode-17 snapshot (oracle/props17.json, oracle/scf17.json)
Files are rewritten only when their content changes (keeps lake's cache valid).
"""
import json
import os
import re
import sys

_ROOT = os.path.dirname(os.path.dirname(os.path.abspath(__file__)))
REPO = os.environ.get("REGRESS_REPO", "/repo")
OUT = os.environ.get("GEN_OUT", os.path.join(_ROOT, "lean", "RegressModel", "Gen"))
ORACLE = os.environ.get("ORACLE_DIR", os.path.join(_ROOT, "oracle"))

IV_BITS = 21  # bits per code point in a packed interval (first | last << 21)


class TranslateError(Exception):
    pass


def rust_int(tok):
    t = tok.strip().replace("_", "")
    neg = t.startswith("-")
    if neg:
        t = t[1:].strip()
    for suf in ("u32", "i32", "u8", "usize", "u16", "u64"):
        if t.endswith(suf):
            t = t[: -len(suf)]
    if t.startswith("0x") or t.startswith("0X"):
        v = int(t[2:], 16)
    elif t.startswith("0b"):
        v = int(t[2:], 2)
    elif t.startswith("0o"):
        v = int(t[2:], 8)
    else:
        if not re.fullmatch(r"[0-9]+", t):
            raise TranslateError("not an integer literal: %r" % tok)
        v = int(t)
    return -v if neg else v


def rust_char(tok):
    t = tok.strip()
    m = re.fullmatch(r"'\\u\{([0-9A-Fa-f_]+)\}'", t)
    if m:
        return int(m.group(1).replace("_", ""), 16)
    m = re.fullmatch(r"'\\(.)'", t)
    if m:
        esc = {"n": 10, "r": 13, "t": 9, "\\": 92, "'": 39, "0": 0, '"': 34}
        if m.group(1) not in esc:
            raise TranslateError("unknown char escape %r" % tok)
        return esc[m.group(1)]
    m = re.fullmatch(r"'(.)'", t, re.S)
    if m:
        return ord(m.group(1))
    raise TranslateError("not a char literal: %r" % tok)


def pack_intervals(ivs):
    n = 0
    for i, (a, b) in enumerate(ivs):
        if not (0 <= a < (1 << IV_BITS) and 0 <= b < (1 << IV_BITS)):
            raise TranslateError("interval out of packing range: %r" % ((a, b),))
        n |= (a | (b << IV_BITS)) << (2 * IV_BITS * i)
    return n


def name_nat(s):
    """A name as a Nat: base-256 big-endian of its UTF-8 bytes after a leading 0x01."""
    n = 1
    for b in s.encode("utf-8"):
        n = n * 256 + b
    return n


def strip_comments(src):
    # remove // comments (tables contain none inside literals that matter except char literals with '/')
    out = []
    for line in src.split("\n"):
        i = 0
        inq = None
        res = []
        while i < len(line):
            ch = line[i]
            if inq:
                res.append(ch)
                if ch == "\\" and i + 1 < len(line):
                    res.append(line[i + 1])
                    i += 2
                    continue
                if ch == inq:
                    inq = None
            else:
                if ch == '"':
                    inq = ch
                    res.append(ch)
                elif ch == "'" and re.match(r"'(\\u\{[0-9A-Fa-f_]+\}|\\.|[^\\'])'", line[i:]):
                    m = re.match(r"'(\\u\{[0-9A-Fa-f_]+\}|\\.|[^\\'])'", line[i:])
                    res.append(m.group(0))
                    i += len(m.group(0))
                    continue
                elif ch == "/" and line[i : i + 2] == "//":
                    break
                else:
                    res.append(ch)
            i += 1
        out.append("".join(res))
    return "\n".join(out)


# ------------------------------------------------------------------ unicodetables.rs

def parse_interval_tables(src, origin):
    tables = {}
    for m in re.finditer(
        r"(?:pub(?:\(crate\))?\s+)?const\s+([A-Z][A-Z0-9_]*)\s*:\s*\[Interval;\s*([0-9_]+)\]\s*=\s*\[(.*?)\];",
        src,
        re.S,
    ):
        name, n, body = m.group(1), rust_int(m.group(2)), m.group(3)
        ivs = []
        pos = 0
        body_s = body.strip()
        items = [x.strip() for x in split_top(body_s)]
        for it in items:
            if not it:
                continue
            mm = re.fullmatch(r"Interval::new\(\s*([^,]+?)\s*,\s*([^,]+?)\s*\)", it)
            if mm:
                ivs.append((rust_int(mm.group(1)), rust_int(mm.group(2))))
                continue
            mm = re.fullmatch(r"r\(\s*('.*?')\s*,\s*('.*?')\s*\)", it, re.S)
            if mm:
                ivs.append((rust_char(mm.group(1)), rust_char(mm.group(2))))
                continue
            mm = re.fullmatch(r"r1\(\s*('.*?')\s*\)", it, re.S)
            if mm:
                c = rust_char(mm.group(1))
                ivs.append((c, c))
                continue
            raise TranslateError("%s: table %s: cannot parse item %r" % (origin, name, it))
        if len(ivs) != n:
            raise TranslateError("%s: table %s: declared %d items, parsed %d" % (origin, name, n, len(ivs)))
        if name in tables:
            raise TranslateError("%s: duplicate table %s" % (origin, name))
        tables[name] = ivs
    return tables


def split_top(s):
    """Split on commas at nesting depth 0 (parentheses/brackets), ignoring commas in char literals."""
    out = []
    depth = 0
    cur = []
    i = 0
    while i < len(s):
        ch = s[i]
        m = re.match(r"'(\\u\{[0-9A-Fa-f_]+\}|\\.|[^\\'])'", s[i:]) if ch == "'" else None
        if m:
            cur.append(m.group(0))
            i += len(m.group(0))
            continue
        if ch in "([{":
            depth += 1
        elif ch in ")]}":
            depth -= 1
        if ch == "," and depth == 0:
            out.append("".join(cur))
            cur = []
        else:
            cur.append(ch)
        i += 1
    if "".join(cur).strip():
        out.append("".join(cur))
    return out


def parse_range_fns(src):
    """fn xxx_ranges() -> &'static [Interval] { &NAME }"""
    fns = {}
    for m in re.finditer(
        r"fn\s+([a-z0-9_]+)\(\)\s*->\s*&'static\s*\[Interval\]\s*\{\s*&([A-Z][A-Z0-9_]*)\s*\}", src
    ):
        fns[m.group(1)] = m.group(2)
    return fns


def parse_fn_body(src, fname):
    m = re.search(r"fn\s+" + re.escape(fname) + r"\b", src)
    if not m:
        raise TranslateError("function %s not found" % fname)
    # the body starts at the first '{' at parenthesis depth 0 after the parameter list
    k = m.end()
    pdepth = 0
    seen_params = False
    while k < len(src):
        if src[k] == "(":
            pdepth += 1
        elif src[k] == ")":
            pdepth -= 1
            seen_params = True
        elif src[k] == "{" and pdepth == 0 and seen_params:
            break
        k += 1
    if k >= len(src):
        raise TranslateError("function %s: body not found" % fname)
    i = k
    depth = 0
    j = i
    while j < len(src):
        if src[j] == "{":
            depth += 1
        elif src[j] == "}":
            depth -= 1
            if depth == 0:
                return src[i + 1 : j]
        j += 1
    raise TranslateError("function %s: unbalanced braces" % fname)


def parse_match_arms(body):
    m = re.search(r"match\s+[a-z_]+\s*\{", body)
    if not m:
        raise TranslateError("no match in body")
    i = m.end()
    depth = 1
    j = i
    while j < len(body) and depth > 0:
        if body[j] == "{":
            depth += 1
        elif body[j] == "}":
            depth -= 1
        j += 1
    inner = body[i : j - 1]
    arms = []
    for arm in split_top(inner):
        arm = arm.strip()
        if not arm:
            continue
        if "=>" not in arm:
            raise TranslateError("cannot parse match arm %r" % arm)
        lhs, rhs = arm.split("=>", 1)
        arms.append((lhs.strip(), rhs.strip()))
    return arms


def parse_from_str(src, fname):
    """-> list of (name string, Variant)"""
    arms = parse_match_arms(parse_fn_body(src, fname))
    out = []
    saw_default = False
    for lhs, rhs in arms:
        if lhs == "_":
            if rhs != "None":
                raise TranslateError("%s: default arm is %r" % (fname, rhs))
            saw_default = True
            continue
        mm = re.fullmatch(r"Some\(([A-Za-z0-9_]+)\)", rhs)
        if not mm:
            raise TranslateError("%s: cannot parse arm rhs %r" % (fname, rhs))
        for alt in lhs.split("|"):
            alt = alt.strip()
            m2 = re.fullmatch(r'"([^"\\]*)"', alt)
            if not m2:
                raise TranslateError("%s: cannot parse pattern %r" % (fname, alt))
            out.append((m2.group(1), mm.group(1)))
    if not saw_default:
        raise TranslateError("%s: no default arm" % fname)
    names = [n for n, _ in out]
    if len(set(names)) != len(names):
        raise TranslateError("%s: duplicate name" % fname)
    return out


def parse_dispatch(src, fname, range_fns, tables):
    """-> dict Variant -> table const name"""
    arms = parse_match_arms(parse_fn_body(src, fname))
    out = {}
    for lhs, rhs in arms:
        m1 = re.fullmatch(r"([a-z0-9_]+)\(\)", rhs)
        m2 = re.fullmatch(r"&([A-Z][A-Z0-9_]*)", rhs)
        if m1:
            if m1.group(1) not in range_fns:
                raise TranslateError("%s: unknown ranges fn %s" % (fname, m1.group(1)))
            t = range_fns[m1.group(1)]
        elif m2:
            t = m2.group(1)
        else:
            raise TranslateError("%s: cannot parse dispatch arm %r => %r" % (fname, lhs, rhs))
        if t not in tables:
            raise TranslateError("%s: unknown table %s" % (fname, t))
        if lhs in out:
            raise TranslateError("%s: duplicate variant %s" % (fname, lhs))
        out[lhs] = t
    return out


def parse_fold_table(src, name):
    m = re.search(
        r"const\s+" + name + r"\s*:\s*\[FoldRange;\s*([0-9_]+)\]\s*=\s*\[(.*?)\];", src, re.S
    )
    if not m:
        raise TranslateError("fold table %s not found" % name)
    n = rust_int(m.group(1))
    rows = []
    for it in split_top(m.group(2)):
        it = it.strip()
        if not it:
            continue
        mm = re.fullmatch(r"FoldRange::from\(\s*([^,]+),\s*([^,]+),\s*([^,]+),\s*([^,]+)\)", it)
        if not mm:
            raise TranslateError("%s: cannot parse %r" % (name, it))
        rows.append(tuple(rust_int(mm.group(k)) for k in (1, 2, 3, 4)))
    if len(rows) != n:
        raise TranslateError("%s: declared %d rows, parsed %d" % (name, n, len(rows)))
    return rows


def pack_folds(rows):
    """(start 21 bits, len 13 bits, sign 1 bit, |delta| 21 bits, modulo 8 bits) = 64 bits per row."""
    n = 0
    for i, (start, ln, delta, mod) in enumerate(rows):
        if not (0 <= start < (1 << 21) and 0 < ln < (1 << 13) and abs(delta) < (1 << 21) and 0 < mod < 256):
            raise TranslateError("fold row out of packing range: %r" % ((start, ln, delta, mod),))
        v = start | (ln << 21) | ((1 if delta < 0 else 0) << 34) | (abs(delta) << 35) | (mod << 56)
        n |= v << (64 * i)
    return n


def parse_string_tables(src):
    out = {}
    for m in re.finditer(
        r"static\s+([A-Z][A-Z0-9_]*)\s*:\s*&\[&\[u32\];\s*([0-9_]+)\]\s*=\s*&\[(.*?)\];", src, re.S
    ):
        name, n = m.group(1), rust_int(m.group(2))
        seqs = []
        for it in split_top(m.group(3)):
            it = it.strip()
            if not it:
                continue
            mm = re.fullmatch(r"&\[(.*)\]", it, re.S)
            if not mm:
                raise TranslateError("%s: cannot parse %r" % (name, it))
            seqs.append([rust_int(x) for x in mm.group(1).split(",") if x.strip()])
        if len(seqs) != n:
            raise TranslateError("%s: declared %d, parsed %d" % (name, n, len(seqs)))
        out[name] = seqs
    return out


def parse_string_dispatch(src, tables):
    fns = {}
    for m in re.finditer(
        r"fn\s+([a-z0-9_]+)\(\)\s*->\s*&'static\s*\[&'static\s*\[u32\]\]\s*\{\s*([A-Z][A-Z0-9_]*)\.as_slice\(\)\s*\}",
        src,
    ):
        fns[m.group(1)] = m.group(2)
    arms = parse_match_arms(parse_fn_body(src, "string_property_sets"))
    out = {}
    for lhs, rhs in arms:
        m1 = re.fullmatch(r"([a-z0-9_]+)\(\)", rhs)
        if not m1 or m1.group(1) not in fns:
            raise TranslateError("string_property_sets: cannot resolve %r" % rhs)
        t = fns[m1.group(1)]
        if t not in tables:
            raise TranslateError("string_property_sets: unknown table %s" % t)
        out[lhs] = t
    return out


def pack_strings(seqs):
    """Each sequence: code points 21 bits each, preceded by its length (8 bits); sequences concatenated
    low-to-high: [len:8][cp0:21][cp1:21]..."""
    n = 0
    shift = 0
    for s in seqs:
        if not (0 < len(s) < 256):
            raise TranslateError("string too long")
        n |= len(s) << shift
        shift += 8
        for c in s:
            n |= c << shift
            shift += 21
    return n


def parse_word_fold_arms(src):
    arms = parse_match_arms(parse_fn_body(src, "nonascii_folds_to_ascii_word_char"))
    cps = []
    for lhs, rhs in arms:
        if lhs == "_":
            if rhs != "false":
                raise TranslateError("nonascii_folds_to_ascii_word_char default arm: %r" % rhs)
            continue
        if rhs != "true":
            raise TranslateError("nonascii_folds_to_ascii_word_char arm: %r" % rhs)
        for alt in lhs.split("|"):
            cps.append(rust_int(alt))
    return sorted(cps)


# ------------------------------------------------------------------ constants

def const_expr(src, expr, origin, depth=0):
    """Value of a constant expression: integer literals, other constants of the same file (`NAME`,
    `Self::NAME`), `+ - * << >> & |`, parentheses and `as <int type>` casts."""
    import ast as pyast
    if depth > 8:
        raise TranslateError("%s: constant expression nests too deep: %r" % (origin, expr))
    e = re.sub(r"\bas\s+(?:u8|u16|u32|u64|usize|i32|i64|isize)\b", "", expr)

    def lit(m):
        return str(rust_int(m.group(0)))

    e = re.sub(r"\b(?:0x[0-9A-Fa-f_]+|0b[01_]+|0o[0-7_]+|[0-9][0-9_]*)(?:u8|u16|u32|u64|usize|i32)?\b", lit, e)

    def ident(m):
        return str(find_const(src, m.group(1), origin, depth + 1))

    e = re.sub(r"\b(?:Self::)?([A-Z][A-Z0-9_]*)\b", ident, e)
    if not re.fullmatch(r"[0-9+\-*<>&|() \t\n]+", e):
        raise TranslateError("%s: not a constant expression: %r" % (origin, expr))
    try:
        tree = pyast.parse(e.strip(), mode="eval")
    except SyntaxError:
        raise TranslateError("%s: not a constant expression: %r" % (origin, expr))
    ok = (pyast.Expression, pyast.BinOp, pyast.UnaryOp, pyast.Constant, pyast.Add, pyast.Sub, pyast.Mult, pyast.LShift, pyast.RShift,
          pyast.BitAnd, pyast.BitOr, pyast.USub)
    for n in pyast.walk(tree):
        if not isinstance(n, ok):
            raise TranslateError("%s: not a constant expression: %r" % (origin, expr))
    return int(eval(compile(tree, "<const>", "eval"), {"__builtins__": {}}, {}))


def find_const(src, name, origin, depth=0):
    m = re.search(r"const\s+" + name + r"\s*:\s*[a-z0-9]+\s*=\s*([^;]+);", src)
    if not m:
        raise TranslateError("%s: constant %s not found" % (origin, name))
    return const_expr(src, m.group(1), origin, depth)


def duplicate_depth_limit(ir_src):
    """`if depth > N { return None; }` at the head of Node::try_duplicate."""
    body = parse_fn_body(ir_src, "try_duplicate")
    m = re.match(r"\s*if\s+depth\s*>\s*([0-9_]+)\s*\{\s*return\s+None\s*;\s*\}", body)
    if not m:
        raise TranslateError("ir.rs: try_duplicate does not start with `if depth > N { return None; }`")
    return rust_int(m.group(1))


def surrogate_pair_mask(indexing_src):
    """`(((high & M) as u32) << 10 | (low & M) as u32) + 0x1_0000` in code_point_from_surrogates."""
    body = parse_fn_body(indexing_src, "code_point_from_surrogates")
    m = re.match(r"\s*\(\(\(high\s*&\s*(\w+)\)\s*as\s+u32\)\s*<<\s*10\s*\|\s*\(low\s*&\s*(\w+)\)\s*as\s+u32\)\s*\+\s*0x1_0000\s*$", body)
    if not m or m.group(1) != m.group(2):
        raise TranslateError("indexing.rs: code_point_from_surrogates is not `(((high & M) as u32) << 10 | (low & M) as u32) + 0x1_0000`")
    tok = m.group(1)
    if re.fullmatch(r"[A-Z][A-Z0-9_]*", tok):
        return find_const(indexing_src, tok, "indexing.rs")
    return rust_int(tok)


def parse_escape_chars(api_src):
    body = parse_fn_body(api_src, "escape")
    m = re.search(r"match\s+c\s*\{(.*?)=>", body, re.S)
    if not m:
        raise TranslateError("escape: match not found")
    chars = []
    rest = m.group(1)
    lits = re.findall(r"'(?:\\u\{[0-9A-Fa-f_]+\}|\\.|[^\\'])'", rest)
    leftover = rest
    for l in lits:
        leftover = leftover.replace(l, "", 1)
    if leftover.replace("|", "").strip():
        raise TranslateError("escape: unparsed text in match pattern: %r" % leftover)
    for l in lits:
        chars.append(rust_char(l))
    if not chars:
        raise TranslateError("escape: no characters parsed")
    return chars


def parse_flag_letters(api_src):
    body = parse_fn_body(api_src, "new")  # first `fn new` in api.rs is Flags::new
    letters = {}
    for m in re.finditer(r"'([a-z])'\s*=>\s*\{\s*result\.([a-z_]+)\s*=\s*true;", body):
        letters[m.group(1)] = m.group(2)
    if not letters:
        raise TranslateError("Flags::new: no flag letters parsed")
    return letters


# ------------------------------------------------------------------ inventory (C19)

INTERIOR = [
    "Cell", "RefCell", "UnsafeCell", "Mutex", "RwLock", "OnceCell", "OnceLock", "LazyLock",
    "AtomicBool", "AtomicUsize", "AtomicU8", "AtomicU16", "AtomicU32", "AtomicU64", "AtomicIsize",
    "AtomicI8", "AtomicI16", "AtomicI32", "AtomicI64", "AtomicPtr", "Rc", "Weak",
]


def remove_cfg_verif_items(src):
    """Drop items (fn/mod/impl/statement blocks) guarded by #[cfg(regress_verif)] or
    #[cfg(all(regress_verif ...))]; also drops src/verif.rs entirely (caller)."""
    out = []
    lines = src.split("\n")
    i = 0
    while i < len(lines):
        if re.match(r"\s*#\[cfg\((all\()?regress_verif", lines[i]):
            # skip attribute and the following item: up to matching brace or semicolon
            i += 1
            depth = 0
            started = False
            while i < len(lines):
                l = lines[i]
                depth += l.count("{") - l.count("}")
                if "{" in l:
                    started = True
                i += 1
                if (started and depth <= 0) or (not started and l.rstrip().endswith(";")):
                    break
            continue
        out.append(lines[i])
        i += 1
    return "\n".join(out)


def struct_fields(src, name):
    m = re.search(r"pub(?:\(crate\))?\s+struct\s+" + name + r"\s*(?:<[^>]*>)?\s*\{(.*?)\n\}", src, re.S)
    if not m:
        m = re.search(r"struct\s+" + name + r"\s*(?:<[^>]*>)?\s*\{(.*?)\n\}", src, re.S)
    if not m:
        return None
    fields = []
    for f in split_top(m.group(1)):
        f = f.strip()
        f = re.sub(r"^(///.*\n\s*)+", "", f)
        mm = re.match(r"(?:pub(?:\([a-z]+\))?\s+)?([a-z_0-9]+)\s*:\s*(.+)$", f, re.S)
        if mm:
            fields.append((mm.group(1), " ".join(mm.group(2).split())))
    return fields


def inventory(srcdir):
    occurrences = []
    files = sorted(f for f in os.listdir(srcdir) if f.endswith(".rs") and f != "verif.rs")
    allsrc = {}
    for f in files:
        s = open(os.path.join(srcdir, f)).read()
        s = remove_cfg_verif_items(s)
        s_nc = strip_comments(s)
        allsrc[f] = s_nc
        # tests modules are not part of the library
        s_lib = re.split(r"#\[cfg\(test\)\]", s_nc)[0]
        for word in INTERIOR:
            for m in re.finditer(r"\b" + word + r"\b", s_lib):
                occurrences.append((f, word))
        for pat, label in ((r"static\s+mut\b", "static mut"), (r"thread_local!", "thread_local!")):
            for m in re.finditer(pat, s_lib):
                occurrences.append((f, label))
    # field types of the public value types, transitively within the crate
    want = ["Regex", "CompiledRegex", "Match", "Error", "Flags", "BracketContents", "CodePointSet",
            "Interval", "LoopFields", "AsciiBitmap", "ByteBitmap", "ByteArraySet"]
    fields = {}
    for w in want:
        for f, s in allsrc.items():
            fs = struct_fields(s, w)
            if fs is not None:
                fields[w] = (f, fs)
                break
    for w in ("Regex", "CompiledRegex", "Match", "Error"):
        if w not in fields:
            raise TranslateError("inventory: struct %s not found" % w)
    return occurrences, fields


# ------------------------------------------------------------------ Lean emission

def hexnat(n):
    return "0x%X" % n if n else "0"


def lean_ident(s):
    return re.sub(r"[^A-Za-z0-9_]", "_", s)


def chunked(name, ty, items, per=32):
    """Emit `def name : List ty := name_0 ++ name_1 ++ …` with small literal chunks."""
    out = []
    parts = []
    for k in range(0, len(items), per):
        pn = "%s_%d" % (name, k // per)
        parts.append(pn)
        out.append("def %s : List (%s) := [%s]" % (pn, ty, ", ".join(items[k : k + per])))
    if not parts:
        out.append("def %s : List (%s) := []" % (name, ty))
    else:
        # balanced append tree keeps elaboration shallow
        out.append("def %s : List (%s) := List.flatten [%s]" % (name, ty, ", ".join(parts)))
    return "\n".join(out)


def write_if_changed(path, content):
    try:
        if open(path).read() == content:
            return False
    except FileNotFoundError:
        pass
    os.makedirs(os.path.dirname(path), exist_ok=True)
    with open(path + ".tmp", "w") as f:
        f.write(content)
    os.replace(path + ".tmp", path)
    return True


HEADER = "-- GENERATED by tools/rs2lean.py from %s — do not edit.\n"


def main():
    src_dir = os.path.join(REPO, "src")
    ut = strip_comments(open(os.path.join(src_dir, "unicodetables.rs")).read())
    cc = strip_comments(open(os.path.join(src_dir, "charclasses.rs")).read())
    uni = strip_comments(open(os.path.join(src_dir, "unicode.rs")).read())
    api = strip_comments(open(os.path.join(src_dir, "api.rs")).read())
    types = strip_comments(open(os.path.join(src_dir, "types.rs")).read())
    insn = strip_comments(open(os.path.join(src_dir, "insn.rs")).read())
    opt = strip_comments(open(os.path.join(src_dir, "optimizer.rs")).read())
    indexing = strip_comments(open(os.path.join(src_dir, "indexing.rs")).read())
    ir_src = strip_comments(open(os.path.join(src_dir, "ir.rs")).read())
    util_src = strip_comments(open(os.path.join(src_dir, "util.rs")).read())

    tables = parse_interval_tables(ut, "unicodetables.rs")
    cctables = parse_interval_tables(cc, "charclasses.rs")
    for need in ("WORD_CHARS", "DIGITS", "WHITESPACE", "LINE_TERMINATOR"):
        if need not in cctables:
            raise TranslateError("charclasses.rs: %s not found" % need)
    if len(tables) < 300:
        raise TranslateError("unicodetables.rs: only %d interval tables found" % len(tables))
    range_fns = parse_range_fns(ut)

    bin_names = parse_from_str(ut, "unicode_property_binary_from_str")
    gc_names = parse_from_str(ut, "unicode_property_value_general_category_from_str")
    sc_names = parse_from_str(ut, "unicode_property_value_script_from_str")
    str_names = parse_from_str(ut, "unicode_string_property_from_str")
    pn_names = parse_from_str(uni, "unicode_property_name_from_str")

    bin_disp = parse_dispatch(ut, "binary_property_ranges", range_fns, tables)
    gc_disp = parse_dispatch(ut, "general_category_property_value_ranges", range_fns, tables)
    sc_disp = parse_dispatch(ut, "script_value_ranges", range_fns, tables)
    scx_disp = parse_dispatch(ut, "script_extensions_value_ranges", range_fns, tables)
    str_tables = parse_string_tables(ut)
    str_disp = parse_string_dispatch(ut, str_tables)

    def resolve(names, disp, what):
        out = []
        for nm, var in names:
            if var not in disp:
                raise TranslateError("%s: variant %s of name %s has no dispatch arm" % (what, var, nm))
            out.append((nm, disp[var]))
        return out

    bin_res = resolve(bin_names, bin_disp, "binary")
    gc_res = resolve(gc_names, gc_disp, "general category")
    sc_res = resolve(sc_names, sc_disp, "script")
    scx_res = resolve(sc_names, scx_disp, "script extensions")
    str_res = resolve(str_names, str_disp, "string property")

    folds = parse_fold_table(ut, "FOLDS")
    upper = parse_fold_table(ut, "TO_UPPERCASE")
    wordfold = parse_word_fold_arms(ut)

    changed = []

    # ---- Tables.lean
    L = [HEADER % "src/unicodetables.rs, src/charclasses.rs", "namespace Regress.Gen", ""]
    total_iv = 0
    for name in sorted(tables):
        ivs = tables[name]
        total_iv += len(ivs)
        L.append("def T_%s : Nat := %s" % (name, hexnat(pack_intervals(ivs))))
        L.append("def T_%s_len : Nat := %d" % (name, len(ivs)))
    for name in sorted(cctables):
        ivs = cctables[name]
        L.append("def CC_%s : Nat := %s" % (name, hexnat(pack_intervals(ivs))))
        L.append("def CC_%s_len : Nat := %d" % (name, len(ivs)))
    items = ["(T_%s, T_%s_len)" % (n, n) for n in sorted(tables)]
    L.append(chunked("allTables", "Nat × Nat", items))
    L.append("def totalIntervals : Nat := %d" % total_iv)
    L.append("\nend Regress.Gen\n")
    if write_if_changed(os.path.join(OUT, "Tables.lean"), "\n".join(L)):
        changed.append("Tables.lean")

    # ---- Names.lean
    L = [HEADER % "src/unicodetables.rs, src/unicode.rs", "import RegressModel.Gen.Tables",
         "namespace Regress.Gen", "",
         "-- Each entry: (name as Nat [0x01 then the ASCII bytes, big-endian], packed table, table length)"]

    def emit_names(defname, res):
        items = ["(%s, T_%s, T_%s_len)" % (hexnat(name_nat(nm)), t, t) for nm, t in res]
        L.append(chunked(defname, "Nat × Nat × Nat", items))

    emit_names("binaryNames", bin_res)
    emit_names("gcNames", gc_res)
    emit_names("scriptNames", sc_res)
    emit_names("scriptExtNames", scx_res)
    pn_code = {"GeneralCategory": 0, "Script": 1, "ScriptExtensions": 2}
    for nm, var in pn_names:
        if var not in pn_code:
            raise TranslateError("unicode_property_name_from_str: unknown variant %s" % var)
    L.append(chunked("propertyNames", "Nat × Nat",
                     ["(%s, %d)" % (hexnat(name_nat(nm)), pn_code[var]) for nm, var in pn_names]))
    L.append(chunked("stringNames", "Nat × Nat",
                     ["(%s, %d)" % (hexnat(name_nat(nm)), sorted(str_tables).index(t)) for nm, t in str_res]))
    L.append("\nend Regress.Gen\n")
    if write_if_changed(os.path.join(OUT, "Names.lean"), "\n".join(L)):
        changed.append("Names.lean")

    # ---- Strings.lean
    L = [HEADER % "src/unicodetables.rs", "namespace Regress.Gen", ""]
    for i, name in enumerate(sorted(str_tables)):
        L.append("def S_%s : Nat := %s" % (name, hexnat(pack_strings(str_tables[name]))))
        L.append("def S_%s_len : Nat := %d" % (name, len(str_tables[name])))
    L.append("def stringTables : List (Nat × Nat) := [%s]" %
             ", ".join("(S_%s, S_%s_len)" % (n, n) for n in sorted(str_tables)))
    L.append("\nend Regress.Gen\n")
    if write_if_changed(os.path.join(OUT, "Strings.lean"), "\n".join(L)):
        changed.append("Strings.lean")

    # ---- Folds.lean
    L = [HEADER % "src/unicodetables.rs", "namespace Regress.Gen", "",
         "-- rows packed 64 bits each: start(21) | len(13)<<21 | neg(1)<<34 | |delta|(21)<<35 | modulo(8)<<56",
         "def FOLDS : Nat := %s" % hexnat(pack_folds(folds)),
         "def FOLDS_len : Nat := %d" % len(folds),
         "def TO_UPPERCASE : Nat := %s" % hexnat(pack_folds(upper)),
         "def TO_UPPERCASE_len : Nat := %d" % len(upper),
         "def wordFoldExtras : List Nat := [%s]" % ", ".join(hexnat(c) for c in wordfold),
         "\nend Regress.Gen\n"]
    if write_if_changed(os.path.join(OUT, "Folds.lean"), "\n".join(L)):
        changed.append("Folds.lean")

    # ---- Consts.lean
    consts = {
        "MAX_CAPTURE_GROUPS": find_const(types, "MAX_CAPTURE_GROUPS", "types.rs"),
        "MAX_LOOPS": find_const(types, "MAX_LOOPS", "types.rs"),
        "MAX_NESTING_DEPTH": find_const(types, "MAX_NESTING_DEPTH", "types.rs"),
        "MAX_BYTE_SEQ_LENGTH": find_const(insn, "MAX_BYTE_SEQ_LENGTH", "insn.rs"),
        "MAX_CHAR_SET_LENGTH": find_const(insn, "MAX_CHAR_SET_LENGTH", "insn.rs"),
        "LOOP_UNROLL_THRESHOLD": find_const(opt, "LOOP_UNROLL_THRESHOLD", "optimizer.rs"),
        "UNROLL_BODY_BUDGET": find_const(opt, "UNROLL_BODY_BUDGET", "optimizer.rs"),
        "SURROGATE_HIGH_START": find_const(indexing, "SURROGATE_HIGH_START", "indexing.rs"),
        "SURROGATE_HIGH_END": find_const(indexing, "SURROGATE_HIGH_END", "indexing.rs"),
        "SURROGATE_LOW_START": find_const(indexing, "SURROGATE_LOW_START", "indexing.rs"),
        "SURROGATE_LOW_END": find_const(indexing, "SURROGATE_LOW_END", "indexing.rs"),
        "UTF8_CONT_SIGBITS": find_const(util_src, "UTF8_CONT_SIGBITS", "util.rs"),
        "DUPLICATE_DEPTH_LIMIT": duplicate_depth_limit(ir_src),
        "SURROGATE_PAIR_MASK": surrogate_pair_mask(indexing),
    }
    esc = parse_escape_chars(api)
    letters = parse_flag_letters(api)
    L = [HEADER % "src/types.rs, src/insn.rs, src/optimizer.rs, src/api.rs, src/indexing.rs, src/ir.rs, src/util.rs", "namespace Regress.Gen", ""]
    for k, v in consts.items():
        L.append("def %s : Nat := %d" % (k, v))
    L.append("def escapeChars : List Nat := [%s]" % ", ".join(hexnat(c) for c in esc))
    L.append("def flagLetters : List (Nat × Nat) := [%s]" % ", ".join(
        "(%s, %s)" % (hexnat(ord(k)), hexnat(name_nat(v))) for k, v in sorted(letters.items())))
    L.append("\nend Regress.Gen\n")
    if write_if_changed(os.path.join(OUT, "Consts.lean"), "\n".join(L)):
        changed.append("Consts.lean")

    # ---- Inventory.lean
    occ, fields = inventory(src_dir)
    L = [HEADER % "src/*.rs (type inventory)", "namespace Regress.Gen", "",
         "-- occurrences of interior-mutability / shared-state types in library code (outside cfg(regress_verif) and tests)",
         "def interiorOccurrences : List (Nat × Nat) := [%s]" % ", ".join(
             "(%s, %s)" % (hexnat(name_nat(f)), hexnat(name_nat(w))) for f, w in occ),
         "def interiorOccurrenceCount : Nat := %d" % len(occ)]
    flds = []
    for w in sorted(fields):
        f, fs = fields[w]
        for fname, fty in fs:
            flds.append("(%s, %s, %s)" % (hexnat(name_nat(w)), hexnat(name_nat(fname)), hexnat(name_nat(fty))))
    L.append(chunked("structFields", "Nat × Nat × Nat", flds))
    L.append("\nend Regress.Gen\n")
    if write_if_changed(os.path.join(OUT, "Inventory.lean"), "\n".join(L)):
        changed.append("Inventory.lean")

    # ---- Oracle.lean (from committed snapshots)
    opath = os.path.join(ORACLE, "props17.json")
    if os.path.exists(opath):
        orc = json.load(open(opath))
        L = [HEADER % "oracle/props17.json (ICU %s / Unicode %s via V8)" % (orc.get("icu"), orc.get("unicode")),
             "namespace Regress.Oracle", "",
             "-- Accepted (name, packed intervals, length) per kind, sorted by name; kinds: lone, gc=, sc=, scx=",
             ]
        packed_ids = {}
        defs = []
        per_kind = {"lone": [], "gc": [], "sc": [], "scx": []}
        rejected = {"lone": 0, "gc": 0, "sc": 0, "scx": 0}
        for e in orc["entries"]:
            if e["accepted"]:
                p = pack_intervals([tuple(x) for x in e["intervals"]])
                key = (p, len(e["intervals"]))
                if key not in packed_ids:
                    packed_ids[key] = "O_%d" % len(packed_ids)
                    defs.append("def %s : Nat := %s" % (packed_ids[key], hexnat(p)))
                per_kind[e["kind"]].append((name_nat(e["name"]), packed_ids[key], len(e["intervals"])))
            else:
                rejected[e["kind"]] += 1
        L.extend(defs)
        for kind, dn in (("lone", "acceptedLone"), ("gc", "acceptedGc"), ("sc", "acceptedSc"), ("scx", "acceptedScx")):
            items = ["(%s, %s, %d)" % (hexnat(n), pid, ln) for n, pid, ln in sorted(per_kind[kind])]
            L.append(chunked(dn, "Nat × Nat × Nat", items))
            L.append("def %s_rejectedCandidates : Nat := %d" % (dn, rejected[kind]))
        L.append("\nend Regress.Oracle\n")
        if write_if_changed(os.path.join(OUT, "Oracle.lean"), "\n".join(L)):
            changed.append("Oracle.lean")

    cpath = os.path.join(ORACLE, "casefold17.json")
    if os.path.exists(cpath):
        cf = json.load(open(cpath))
        L = [HEADER % "oracle/casefold17.json (ICU %s / Unicode %s via V8)" % (cf.get("icu"), cf.get("unicode")),
             "namespace Regress.Oracle", "",
             "-- pairs packed like intervals (c in the low 21 bits, image in the next 21), sorted by c",
             "-- scf: c ↦ smallest member of c's simple-case-folding class (classes observed through /iu)",
             "def SCF : Nat := %s" % hexnat(pack_intervals([tuple(x) for x in cf["scf"]])),
             "def SCF_len : Nat := %d" % len(cf["scf"]),
             "-- legacy: c ↦ ES legacy Canonicalize(c) (toUpperCase unless multi-character or non-ASCII→ASCII)",
             "def LEGACY : Nat := %s" % hexnat(pack_intervals([tuple(x) for x in cf["legacy"]])),
             "def LEGACY_len : Nat := %d" % len(cf["legacy"]),
             "\nend Regress.Oracle\n"]
        if write_if_changed(os.path.join(OUT, "OracleFold.lean"), "\n".join(L)):
            changed.append("OracleFold.lean")

    summary = {
        "interval_tables": len(tables), "intervals": total_iv, "folds": len(folds), "to_uppercase": len(upper),
        "binary_names": len(bin_res), "gc_names": len(gc_res), "script_names": len(sc_res),
        "string_names": len(str_res), "string_tables": {k: len(v) for k, v in str_tables.items()},
        "consts": consts, "escape_chars": esc, "interior_occurrences": len(occ), "changed": changed,
    }
    json.dump(summary, sys.stdout)
    print()
    # candidate names for the snapshot tool
    if os.environ.get("DUMP_NAMES"):
        json.dump({"binary": [n for n, _ in bin_names], "gc": [n for n, _ in gc_names],
                   "script": [n for n, _ in sc_names], "string": [n for n, _ in str_names]},
                  open(os.environ["DUMP_NAMES"], "w"))


if __name__ == "__main__":
    try:
        main()
    except TranslateError as e:
        print("TRANSLATE-ERROR: %s" % e, file=sys.stderr)
        sys.exit(3)
