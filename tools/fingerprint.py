#!/usr/bin/env python3
"""fingerprint.py [--write] — SHA-256 of every /repo/src/*.rs with comments and whitespace removed.
The committed fingerprints.json records the source state against which the hand-written models were last
validated; verif.py compares on every run and, when a modelled file has changed, multiplies the search
budgets of the checks (more cases, thorough generators) — it never raises an alarm by itself."""
import hashlib, json, os, re, sys
ROOT = os.path.dirname(os.path.dirname(os.path.abspath(__file__)))
import os
SRC = os.path.join(os.environ.get("REGRESS_REPO", "/repo"), "src")


def norm(text):
    text = re.sub(r"//[^\n]*", "", text)
    text = re.sub(r"/\*.*?\*/", "", text, flags=re.S)
    return re.sub(r"\s+", "", text)


def current():
    out = {}
    for f in sorted(os.listdir(SRC)):
        if f.endswith(".rs"):
            out[f] = hashlib.sha256(norm(open(os.path.join(SRC, f), encoding="utf-8", errors="replace").read()).encode()).hexdigest()[:16]
    return out


if __name__ == "__main__":
    cur = current()
    path = os.path.join(ROOT, "fingerprints.json")
    if "--write" in sys.argv:
        json.dump(cur, open(path, "w"), indent=1, sort_keys=True)
        print("written", len(cur))
    else:
        old = json.load(open(path)) if os.path.exists(path) else {}
        print(json.dumps(sorted(f for f in cur if cur[f] != old.get(f))))
