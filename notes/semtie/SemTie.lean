import RegressModel.IR.Sem
import RegressModel.IR.Optimize
import RegressModel.IR.WfIR
open Regress.IR Regress

def main (args : List String) : IO UInt32 := do
  let path := args.head!
  let content ← IO.FS.readFile path
  let mut total := 0
  let mut bad := 0
  let mut matched := 0
  let mut notwf := 0
  let mut lastIr := ""
  for line in content.splitOn "\n" do
    if line.isEmpty then continue
    match line.splitOn "\t" with
    | [flags, irOpt, irNo, hay, start, expected, label] =>
      total := total + 1
      let st := start.toNat!
      if irOpt != lastIr then
        lastIr := irOpt
        for ir in [irOpt, irNo] do
          if wfIRLine ir != "wf" then
            notwf := notwf + 1
            IO.println s!"NOT-WF {label} ir={ir}"
      let a := semFindLine flags irOpt hay st
      let b := semFindLine flags irNo hay st
      let norm (s : String) : String := s.replace " " "_"
      if a != "none" then matched := matched + 1
      if norm a != expected then
        bad := bad + 1
        IO.println s!"MISMATCH(opt) {label} start={st} ir={irOpt}: lean={a} engine={expected}"
      if norm b != expected then
        bad := bad + 1
        IO.println s!"MISMATCH(noopt) {label} start={st} ir={irNo}: lean={b} engine={expected}"
    | _ => IO.println s!"bad line: {line}"
  IO.println s!"total={total} matched={matched} mismatches={bad} not-wf={notwf}"
  return 0
