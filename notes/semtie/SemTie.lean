import RegressModel.IR.Sem
import RegressModel.IR.Optimize
open Regress.IR Regress

/-- Executable version of `Proofs.Lemmas.SemWalk.WF` (for checking the hypothesis of the C03/C04 theorems
on IR produced by the real parser / optimizer). -/
partial def decodeAll (bytes : Array Nat) (pos : Nat) (acc : List Nat) : Option (List Nat) :=
  if pos == bytes.size then some acc.reverse
  else match Utf8.nextRight bytes pos with
    | .ok (some (c, p)) => decodeAll bytes p (c :: acc)
    | _ => none

def validUtf8 (bs : List Nat) : Bool :=
  match decodeAll bs.toArray 0 [] with
  | some cs => Utf8.encodeAll cs == bs && cs.all Utf8.isScalar
  | none => false

def quantOkB (q : Quant) : Bool := match q.max with | none => true | some m => decide (q.min ≤ m)

mutual
partial def wfB : Node → Bool
  | .cat ns => ns.all wfB
  | .alt l r => wfB l && wfB r
  | .group _ _ c => wfB c
  | .look _ _ _ _ c => wfB c
  | .loop b q g0 g1 => wfB b && quantOkB q && (decide (numGroups b = 0) == decide (g1 ≤ g0))
  | .loop1 b q => wfB b && quantOkB q && decide (numGroups b = 0)
  | .bracket bc => CPS.wf (toIvList bc.ivs)
  | .byteSeq bs => validUtf8 bs
  | .byteSet bs => bs.all (· < 128)
  | _ => true
end

def main (args : List String) : IO UInt32 := do
  let path := args.head!
  let content ← IO.FS.readFile path
  let mut total := 0
  let mut bad := 0
  let mut matched := 0
  let mut notwf := 0
  let mut lastIr := ""
  for line in content.splitOn "\n" do
    if line.isEmpty then continue
    match line.splitOn "\t" with
    | [flags, irOpt, irNo, hay, start, expected, label] =>
      total := total + 1
      let st := start.toNat!
      if irOpt != lastIr then
        lastIr := irOpt
        for ir in [irOpt, irNo] do
          match parseCanon ir with
          | some n => if !wfB n then
              notwf := notwf + 1
              IO.println s!"NOT-WF {label} ir={ir}"
          | none => IO.println s!"unparsable {ir}"
      let a := semFindLine flags irOpt hay st
      let b := semFindLine flags irNo hay st
      let norm (s : String) : String := s.replace " " "_"
      if a != "none" then matched := matched + 1
      if norm a != expected then
        bad := bad + 1
        IO.println s!"MISMATCH(opt) {label} start={st} ir={irOpt}: lean={a} engine={expected}"
      if norm b != expected then
        bad := bad + 1
        IO.println s!"MISMATCH(noopt) {label} start={st} ir={irNo}: lean={b} engine={expected}"
    | _ => IO.println s!"bad line: {line}"
  IO.println s!"total={total} matched={matched} mismatches={bad} not-wf={notwf}"
  return 0
