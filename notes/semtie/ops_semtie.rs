//! Scratch: tie of the Lean IR semantics (`semFindLine`) to the real engine.
use crate::ast::{self, GenCfg};
use crate::ops_engine::{gen_case, run_exec};
use crate::report::Report;
use crate::rng::Rng;
use crate::util::*;
use std::collections::BTreeMap;
use std::io::Write;

pub fn semtie(n: usize, seed: u64, thorough: bool, out: &str) {
    let mut rng = Rng::new(seed);
    let mut rep = Report::new();
    let cfg = GenCfg { max_depth: if thorough { 4 } else { 3 }, ..GenCfg::default() };
    let mut f = std::io::BufWriter::new(std::fs::File::create(out).unwrap());
    let mut kinds: BTreeMap<String, u64> = BTreeMap::new();
    let mut done = 0usize;
    let mut disagree = 0usize;
    while done < n {
        let Some(c) = gen_case(&mut rng, &cfg, &mut rep, None) else { continue };
        let cps: Vec<u32> = c.pat.chars().map(|ch| ch as u32).collect();
        let fs = c.flags.to_string();
        let ir_opt = regress::verif::dump_ir_canon(cps.iter().copied(), make_flags(&fs, false)).unwrap().replace(' ', "~");
        let ir_no = regress::verif::dump_ir_canon(cps.iter().copied(), make_flags(&fs, true)).unwrap().replace(' ', "~");
        let hays = ast::haystacks(&c.node, c.flags, &mut rng, if thorough { 8 } else { 5 });
        for (hi, h) in hays.iter().enumerate() {
            let hay = ast::to_string(h);
            let bounds = boundaries(&hay);
            let starts: Vec<usize> = if hi < 2 { bounds.clone() } else { vec![0] };
            for &start in &starts {
                done += 1;
                for ir in [&ir_opt, &ir_no] {
                    for tok in ir.split(|ch: char| ch == '~' || ch == ')') {
                        if let Some(k) = tok.strip_prefix('(') {
                            *kinds.entry(k.to_string()).or_insert(0) += 1;
                        }
                    }
                }
                let first = |t: &str| -> String {
                    if t == "fuel" || t.starts_with("panic") { t.to_string() }
                    else { match t.split(' ').next() { Some(x) if !x.is_empty() => format!("m {}", x), _ => "none".to_string() } }
                };
                let bt = first(&run_exec(&c.opt, Exec::Bt, &hay, start, 1).text);
                let pk = first(&run_exec(&c.opt, Exec::Pk, &hay, start, 1).text);
                let btn = first(&run_exec(&c.noopt, Exec::Bt, &hay, start, 1).text);
                let pkn = first(&run_exec(&c.noopt, Exec::Pk, &hay, start, 1).text);
                if !(bt == pk && bt == btn && bt == pkn) {
                    disagree += 1;
                    eprintln!("ENGINE DISAGREE /{}/{} on {:?} from {}: bt={} pk={} btn={} pkn={}", c.pat, fs, hay, start, bt, pk, btn, pkn);
                }
                writeln!(f, "{}\t{}\t{}\t{}\t{}\t{}\t/{}/{} {:?}", c.flags.to_token(), ir_opt, ir_no, ast::bytes_hex(hay.as_bytes()), start, bt.replace(' ', "_"), c.pat.replace('\t', "\\t").replace('\n', "\\n").replace('\r', "\\r"), fs, hay).unwrap();
            }
        }
    }
    eprintln!("cases={} engine-disagreements={} violations={}", done, disagree, rep.violations.len());
    for (k, v) in &kinds {
        eprintln!("kind {} {}", k, v);
    }
}
