import random, sys
random.seed(777)
chars = ['a','k','K','s','ſ','S','K','é','É','0','_','&','-','!','\\-','\\&','\\b','\\x6b','\\u{212a}','\\u017f','😀','ǅ','ǆ','Ǆ','ß','ẞ']
escs = ['\\w','\\W','\\d','\\D','\\s','\\S','\\p{Lu}','\\P{Ll}','\\p{Ll}','\\P{Lu}','\\p{ASCII}','\\p{Emoji_Keycap_Sequence}','\\P{Any}','\\p{Any}','\\p{Lt}']
def qstr():
    n = random.randint(0,4)
    alts=[]
    for _ in range(n):
        l = random.choice([0,1,1,2,2,3])
        alts.append(''.join(random.choice(['a','k','K','s','ſ','b','1','\\x6b']) for _ in range(l)))
    return '\\q{' + '|'.join(alts) + '}'
def operand(d):
    r = random.random()
    if r < 0.35: return random.choice(chars)
    if r < 0.55: return random.choice(escs)
    if r < 0.7: return qstr()
    if d <= 0: return random.choice(chars)
    return cls(d-1)
def cls(d):
    neg = '^' if random.random() < 0.3 else ''
    r = random.random()
    if r < 0.4:
        n = random.randint(0,4)
        items=[]
        for _ in range(n):
            if random.random()<0.2:
                a=random.choice(['a','k','K','0','A']); b=random.choice(['z','s','Z','9','k'])
                items.append(a+'-'+b)
            else: items.append(operand(d))
        return '['+neg+''.join(items)+']'
    op = '&&' if r < 0.7 else '--'
    n = random.randint(2,4)
    return '['+neg+op.join(operand(d) for _ in range(n))+']'
def enc(s): return '.'.join('%x' % ord(c) for c in s)
for i in range(int(sys.argv[1])):
    s = cls(random.choice([1,2,2,3]))
    if random.random()<0.3: s = random.choice(['(?<=','(?i:','(?-i:','(?:','(','x|']) + s + random.choice(['*','+?','{2}','']) + (')' if True else '')
    if s.startswith('x|'): s=s[:-1]
    f = random.choice(['v','iv','iv','ivs','u','iu'])
    print(f, enc(s))
