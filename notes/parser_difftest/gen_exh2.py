import sys, itertools
# usage: gen_exh2.py alphabet minlen maxlen prefix suffix flags(comma sep)
alpha = sys.argv[1]; minlen=int(sys.argv[2]); maxlen = int(sys.argv[3])
pre = sys.argv[4] if len(sys.argv)>4 else ''
suf = sys.argv[5] if len(sys.argv)>5 else ''
flags = sys.argv[6].split(',') if len(sys.argv)>6 else ['-','u','v','i','iu','iv']
out = sys.stdout
for n in range(minlen, maxlen+1):
    for t in itertools.product(alpha, repeat=n):
        s = pre + ''.join(t) + suf
        p = '.'.join('%x' % ord(c) for c in s) if s else '-'
        for f in flags:
            out.write(f + ' ' + p + '\n')
