#!/bin/bash
# usage: cmp.sh file
f=$1
/scratch/parser/cargo/release/irdump < $f > $f.rs &
/scratch/parser/lean/.lake/build/bin/irlean < $f > $f.ln
wait
paste -d'\n' /dev/null > /dev/null
python3 - "$f" <<'PY'
import sys
f=sys.argv[1]
n=0; bad=0; acc=0; okc=0
shown=0
with open(f) as a, open(f+'.rs') as b, open(f+'.ln') as c:
    for la, lb, lc in zip(a,b,c):
        n+=1
        if lb.startswith('ok'): okc+=1
        if lb!=lc:
            bad+=1
            if (lb[:2]=='ok') != (lc[:2]=='ok'): acc+=1
            if shown<15:
                shown+=1
                fl,p=la.split()
                s=''.join(chr(int(h,16)) if int(h,16)<0x110000 and not (0xd800<=int(h,16)<0xe000) else '<%s>'%h for h in p.split('.')) if p!='-' else ''
                print('MISMATCH', fl, repr(s), p); print('  rs:', lb.strip()[:300]); print('  ln:', lc.strip()[:300])
print('cases',n,'accepted',okc,'mismatches',bad,'accept/reject mismatches',acc)
PY
