use std::io::{BufRead, Write};

fn main() {
    if std::env::var("SHOWPANIC").is_err() { std::panic::set_hook(Box::new(|_| {})); }
    let stdin = std::io::stdin();
    let stdout = std::io::stdout();
    let mut out = std::io::BufWriter::new(stdout.lock());
    for line in stdin.lock().lines() {
        let line = line.unwrap();
        let line = line.trim();
        if line.is_empty() {
            continue;
        }
        let mut it = line.split(' ');
        let fl = it.next().unwrap();
        let pat = it.next().unwrap_or("-");
        let mut flags = regress::Flags::default();
        if fl != "-" {
            for c in fl.chars() {
                match c {
                    'i' => flags.icase = true,
                    'm' => flags.multiline = true,
                    's' => flags.dot_all = true,
                    'u' => flags.unicode = true,
                    'v' => flags.unicode_sets = true,
                    _ => {}
                }
            }
        }
        flags.no_opt = true;
        let cps: Vec<u32> = if pat == "-" {
            Vec::new()
        } else {
            pat.split('.').map(|h| u32::from_str_radix(h, 16).unwrap()).collect()
        };
        let r = std::panic::catch_unwind(|| regress::verif::dump_ir_canon(cps.iter().copied(), flags));
        match r {
            Ok(Ok(s)) => writeln!(out, "ok {}", s).unwrap(),
            Ok(Err(_)) => writeln!(out, "err").unwrap(),
            Err(_) => writeln!(out, "panic").unwrap(),
        }
    }
}
