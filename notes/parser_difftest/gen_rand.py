import random, sys
random.seed(int(sys.argv[2]) if len(sys.argv)>2 else 4242)
names = ['a','b','n','$x','_1','π','\\u0061','\\u{62}','a\\u0031']
lit = list('abkKsS019_ -,:=!<>&/#%~`@"\'') + ['é','ſ','K','😀','\ud83d','\ude00','ǅ',' ','\n']
def cls_atom():
    r=random.random()
    if r<0.5: return random.choice(lit+['\\]','\\\\','\\-','\\b','\\n','\\x41','\\u0041','\\u{1F600}','\\cA','\\0','\\7','\\12'])
    if r<0.8: return random.choice(['\\d','\\D','\\w','\\W','\\s','\\S','\\p{Lu}','\\P{Lu}','\\p{sc=Greek}'])
    return random.choice(['^','[','-','\\k','\\c','\\B','\\q{ab}'])
def bracket():
    n=random.randint(0,5); s='['+('^' if random.random()<0.3 else '')
    for _ in range(n):
        if random.random()<0.3: s+=cls_atom()+'-'+cls_atom()
        else: s+=cls_atom()
    return s+']'
def quant():
    return random.choice(['*','+','?','*?','+?','??','{2}','{2,}','{2,3}','{3,2}','{0}','{2,3}?','{','{2','{,3}','{99999999999999999999}'])
def atom(d):
    r=random.random()
    if r<0.3: return random.choice(lit)
    if r<0.4: return random.choice(['.','^','$','\\b','\\B'])
    if r<0.5: return random.choice(['\\d','\\D','\\w','\\W','\\s','\\S','\\p{Lu}','\\P{Ll}','\\p{L}','\\p{RGI_Emoji_Flag_Sequence}','\\p{gc=Nd}','\\p{scx=Latn}'])
    if r<0.6: return random.choice(['\\1','\\2','\\3','\\10','\\0','\\00','\\07','\\377','\\8','\\k<a>','\\k<b>','\\k<n>','\\k','\\x41','\\x4','\\u0041','\\u00','\\u{41}','\\u{1F600}','\\ud83d\\ude00','\\ud83d\\u0041','\\cA','\\c1','\\c','\\/','\\-','\\a','\\e','\\$','\\(','\\)','\\[','\\{','\\|','\\n','\\t','\\v','\\f','\\r'])
    if r<0.7: return bracket()
    if d<=0: return random.choice(lit)
    k=random.random()
    inner=disj(d-1)
    if k<0.25: return '('+inner+')'
    if k<0.4: return '(?:'+inner+')'
    if k<0.55: return '(?<'+random.choice(names)+'>'+inner+')'
    if k<0.65: return '(?='+inner+')'
    if k<0.72: return '(?!'+inner+')'
    if k<0.82: return '(?<='+inner+')'
    if k<0.9: return '(?<!'+inner+')'
    return '(?'+random.choice(['i','m','s','-i','im','i-s','ims','-ims','i-i','x',''])+':'+inner+')'
def term(d):
    n=random.randint(0,4); s=''
    for _ in range(n):
        s+=atom(d)
        if random.random()<0.3: s+=quant()
    return s
def disj(d):
    n=random.choice([1,1,1,2,2,3])
    return '|'.join(term(d) for _ in range(n))
def mutate(s):
    if not s: return s
    r=random.random()
    i=random.randrange(len(s))
    if r<0.4: return s[:i]+s[i+1:]
    if r<0.8: return s[:i]+random.choice(list('()[]{}|?*+^$\\.-<>:=!k1'))+s[i:]
    return s[:i]
def enc(s): return '.'.join('%x' % ord(c) for c in s) if s else '-'
flags=['-','u','v','i','iu','iv','m','s','imsu','ms']
for i in range(int(sys.argv[1])):
    s=disj(random.choice([1,2,2,3,4]))
    m=random.random()
    if m<0.25: s=mutate(s)
    elif m<0.3: s=mutate(mutate(s))
    print(random.choice(flags), enc(s))
