import sys, random
random.seed(12345)
flags = ['-','u','v','i','iu','iv','m','s','ms','imsu','imsv']
pats = []
def P(*xs):
    for x in xs: pats.append(x)
# named groups, duplicates, \k
P(r'(?<a>x)', r'(?<a>x)\k<a>', r'\k<a>(?<a>x)', r'(?<a>x)|(?<a>y)', r'(?<a>x)(?<a>y)', r'(?:(?<a>x)|(?<a>y))\k<a>',
  r'(?<a>x)|(?<a>y)|(?<a>z)\k<a>', r'(?:(?<n>x)|a)(?:b|(?<n>y))', r'(?:(?<n>x)|a)(?:(?<n>y)|b)', r'((?<a>x)|(?<a>y))',
  r'(?<a>(?<a>x))', r'(?<a>x|(?<a>y))', r'(?<a>x)|((?<a>y))', r'(?<a>x)(?:|(?<a>y))', r'\k<a>', r'\k', r'\k<', r'\k<a', r'\k<>', r'(?<a>)\k<b>',
  r'(?<$>x)\k<$>', r'(?<_a1>x)', r'(?<1a>x)', r'(?<a-b>x)', r'(?<a', r'(?<', r'(?<>x)', r'(?<\u0061>x)\k<a>', r'(?<\u{61}>x)\k<a>', r'(?<a\u0062>x)\k<ab>',
  r'(?<\u{1d4d1}>x)', r'(?<\ud835\udcd1>x)', r'(?<\ud835>x)', r'(?<a\u003e>x)', r'(?<a\u003ex)', r'(?<a\u{3e}b>x)', r'(?<\u0031>x)', r'(?<a\u0031>x)',
  r'(?<a\x62>x)', r'(?<a\>x)', r'(?<𝒜>x)', r'(?<a𝒜>x)\k<a𝒜>', r'(?<a‌b>x)', r'(?<‌b>x)', r'(?<π>x)\k<π>', r'(?<a>.)\k<a>\1', r'(?<A>x)\k<a>',
  r'(?<a>x)[\k<a>]', r'[(?<a>x)]\k<a>', r'\(?<a>x)\k<a>', r'(?<a>\))\k<a>', r'[\](?<a>x)]', r'[[](?<a>x)]\k<a>', r'[[]](?<a>x)\k<a>', r'[[a](?<a>x)]\k<a>',
  r'(?<a>x)|(?<b>y)\k<a>\k<b>', r'(?<a>x)(?<b>y)(?<c>z)\k<c>\k<b>\k<a>', r'(?<a>x)|(?<a>y)|(?<a>z)|(?<a>w)\k<a>', r'(?=(?<a>x))|(?<a>y)', r'(?<=(?<a>x))\k<a>|(?<a>y)\k<a>',
  r'(?<a>a)|(?<b>b)|(?<a>c)', r'(?:(?:(?<a>x)|y)|(?<a>z))', r'(?:(?<a>x)|y)(?<a>z)', r'(?:x|(?<a>y))|(?<a>z)', r'(?<a>x))|(?<a>y)', r'(?<a>x)|(?<a>y))\k<a>', r')(?<a>x)(?<a>x)', r'(?<a>x)\|(?<a>y)')
# lookarounds
P(r'(?=a)', r'(?!a)', r'(?<=a)', r'(?<!a)', r'(?=a)*', r'(?!a)+', r'(?=a){2}', r'(?<=a)*', r'(?<!a)?', r'(?<=ab)c', r'(?<=a(?=bc)d)e', r'(?<=a(?=b(?<=cd)e)f)g', r'(?<=(a)(b))\1\2',
  r'(?<=(?:ab|cd)ef)', r'(?<=a|bc)', r'(?<=[ab]c+d{2,3})', r'(?<!(?<x>ab)c)\k<x>', r'(?=(a)(?<=bc))', r'a(?<=ab)cd|ef(?<!gh)', r'(?<=(?<=ab)cd)', r'(?<=\bab\B)', r'(?<=^ab$)', r'(?<=a.b)',
  r'(?=', r'(?!', r'(?<=', r'(?<!', r'(?=a', r'(?<=a))', r'(?<=(?i:ab)c)', r'(?<=(ab)*c)', r'(?<=(?:ab){2}c)', r'(?<=\k<n>(?<n>a)b)', r'(?<=ab)(?=cd)ef', r'(?<=[\q{ab}])x', r'(?<=\p{RGI_Emoji_Flag_Sequence}x)y')
# classes
P(r'[a-z]', r'[z-a]', r'[a-]', r'[-a]', r'[a-b-c]', r'[a-\d]', r'[\d-a]', r'[\d-\w]', r'[\w-]', r'[-]', r'[--]', r'[---]', r'[]', r'[^]', r'[^a]', r'[^\d]', r'[\D]', r'[\s\S]', r'[\W\w]', r'[\b]', r'[\B]',
  r'[\-]', r'[a\-z]', r'[\c]', r'[\cA]', r'[\c1]', r'[\c_]', r'[\c-]', r'[\ca-\cz]', r'[\x41-\x5a]', r'[\x4]', r'[\u0041-\u005A]', r'[\u{41}-\u{5a}]', r'[\u{1F600}-\u{1F64F}]', r'[😀-😏]', r'[\ud83d\ude00-\ud83d\ude4f]',
  r'[\0]', r'[\00]', r'[\01]', r'[\08]', r'[\1]', r'[\12]', r'[\123]', r'[\377]', r'[\400]', r'[\8]', r'[\9]', r'[\k]', r'[\p{Lu}]', r'[\P{Lu}]', r'[\p{Lu}-z]', r'[a-\p{Lu}]', r'[\p{L}\p{N}]', r'[^\p{L}]', r'[^\P{L}]', r'[\p{RGI_Emoji}]', r'[\p]', r'[\p{]', r'[\p{L]',
  r'[abc', r'[a\]', r'[a\]b]', r'[[]', r'[]]', r'[a]]', r'[[a]]', r'[\[\]]', r'[a-zA-Z0-9_$]', r'[k-s]', r'[K]', r'[\u212a]', r'[ſ]', r'[ß]', r'[ẞ]', r'[Ω]', r'[Ωω]', r'[ǅ]', r'[ǆ-ǈ]', r'[\w]', r'[\W]', r'[^\w]', r'[^\W]', r'[\d\s]', r'[^\S]', r'[\u{10ffff}]', r'[\u{110000}]', r'[\u{0}-\u{10ffff}]',
  r'[a-a]', r'[b-a]', r'[\d-\d]', r'[a-\x]', r'[\x-a]', r'[\u-a]', r'[+--]', r'[--+]', r'[\--a]', r'[!-\-]', r'[\n\r\t\f\v]', r'[\/]', r'[\^$.*+?()[\]{}|]', r'[^-a]', r'[^^]', r'[\^]', r'[a^]')
# class sets
P(r'[a&&b]', r'[a--b]', r'[a&b]', r'[a&&&b]', r'[a&&&]', r'[a&&]', r'[&&a]', r'[a--]', r'[--a]', r'[a---b]', r'[\w&&\d]', r'[\w--\d]', r'[\w--[0-5]]', r'[[a-z]--[aeiou]]', r'[[a-z]&&[^aeiou]]', r'[\p{L}&&\p{ASCII}]', r'[\p{L}--\p{Lu}]',
  r'[\q{ab|c}]', r'[\q{abc|d|ef|}]', r'[\q{}]', r'[\q{|}]', r'[\q{a}]', r'[\q{ab}]', r'[^\q{ab}]', r'[^\q{a}]', r'[\q{ab|c}--\q{c}]', r'[\q{ab|c}&&\q{ab}]', r'[\q{ab|c}&&c]', r'[a-c\q{b|bc}&&\q{b|bc|d}]', r'[\q{a|bc}--a]', r'[a\q{a}--\q{a}]', r'[\q{ab}\q{cde}\q{f}\q{gh}]', r'[\q{ab|cd|efg|h|ij}]',
  r'[\q{a]b}]', r'[\q{(}]', r'[\q{\(}]', r'[\q{\}}]', r'[\q{a\|b}]', r'[\q{\u{61}\x62}]', r'[\q', r'[\q{', r'[\q{a', r'[\q{a}', r'[\qa]', r'[\p{RGI_Emoji_Flag_Sequence}]', r'[^\p{RGI_Emoji_Flag_Sequence}]', r'[\P{RGI_Emoji_Flag_Sequence}]', r'\p{RGI_Emoji_Flag_Sequence}', r'\P{RGI_Emoji_Flag_Sequence}', r'\p{Emoji_Keycap_Sequence}', r'[\p{Emoji_Keycap_Sequence}]', r'[\p{Emoji_Keycap_Sequence}--\q{1️⃣}]', r'[\p{Emoji_Keycap_Sequence}&&\q{1️⃣|2️⃣|ab}]', r'[\p{RGI_Emoji_Tag_Sequence}a]', r'[[\p{RGI_Emoji_Tag_Sequence}]--a]', r'[^[\p{RGI_Emoji_Tag_Sequence}]]',
  r'[[a][b]]', r'[[a][^b]]', r'[^[a][b]]', r'[^[^a]]', r'[[]]', r'[[^]]', r'[^[]]', r'[[a]', r'[[a]]]', r'[a-z&&[^k]]', r'[A-]]', r'[a-]]', r'[a-[b]]', r'[[a]-b]', r'[\d-a]', r'[a-\d]', r'[a-b-c]', r'[a-bc-d]', r'[ab--c]', r'[a--b--c]', r'[a&&b&&c]', r'[a&&b--c]', r'[a--b&&c]', r'[a&&b c]', r'[a--bc]',
  r'[!#]', r'[!!]', r'[a!]', r'[!a]', r'[##]', r'[\!\#]', r'[\&\&]', r'[\-]', r'[\b]', r'[\B]', r'[a\b]', r'[\b-c]', r'[(]', r'[)]', r'[{]', r'[}]', r'[/]', r'[|]', r'[-]', r'[a-]', r'[\(\)\{\}\/\-\|]', r'[\[\]\\]', r'[^]', r'[^a-z]', r'[^\w]', r'[^\W]', r'[^\p{L}]', r'[\P{L}]', r'[^\P{L}]',
  r'[k]', r'[K]', r'[^k]', r'[\u212a]', r'[\q{K}]', r'[\q{KK|k}]', r'[[k]&&[K]]', r'[\w--k]', r'[\w--[k]]', r'[\w&&\q{k|K}]', r'[a-z--\q{k}]', r'[\d\q{10|11}]', r'[_\q{ab}--_]', r'[\q{ab|a|b}--[a]]', r'[\q{ab|a|b}&&[a]]', r'[[\q{ab|a|b}]&&\q{a|ab}]', r'[\q{a|b}\q{a}]',
  r'[.]', r'[.*]', r'[*+]', r'[a*]', r'[$$]', r'[a$]', r'[^^]', r'[a^^]', r'[@@]', r'[a@b]', r'[``]', r'[~~]', r'[a~]', r'[,,]', r'[::]', r'[;;]', r'[<<]', r'[==]', r'[>>]', r'[??]', r'[%%]', r'[.?]', r'[\c]', r'[\cA]', r'[\0]', r'[\1]', r'[\x41]', r'[\u{41}]', r'[\k]', r'[\a]',
  r'[[[[[[[[[[a]]]]]]]]]]', r'[[a]&&[[a]&&[[a]&&[a]]]]', r'[[a]--[[b]--[[c]--[d]]]]')
# modifiers
P(r'(?i:a)', r'(?-i:a)', r'(?i-m:a)', r'(?im-s:^a.$)', r'(?ims:a)', r'(?-ims:a)', r'(?i-i:a)', r'(?ii:a)', r'(?i-:a)', r'(?-:a)', r'(?:a)', r'(?i)', r'(?i', r'(?i:', r'(?i:a', r'(?x:a)', r'(?i--m:a)', r'(?m:^)(?-m:^)', r'(?s:.)(?-s:.)',
  r'(?i:a(?-i:b)c)d', r'(?i:\w)', r'(?i:[a-z])', r'(?i:\p{Lu})', r'(?i:\b)', r'(?i:(?<n>a))\k<n>', r'(?i:a)*', r'(?i:a){2,3}', r'(?i:a|b)', r'(?i:(a))\1', r'((?i:a))\1', r'(?i:\1)(a)', r'(?i:k)', r'(?i:\u212a)', r'(?-i:k)', r'(?i:[\q{ab}])', r'(?i:[^k])', r'(?i:\P{Lu})', r'(?i:\W)', r'(?i:\cA)', r'(?i:\k)')
# escapes
P(r'\u{1F600}', r'😀', r'\ud83d\ude00', r'\ud83d', r'\ude00', r'\ud83d\u0041', r'\ud83d\u', r'\ud83d\u00', r'\ud83d\ud83d\ude00', r'\ud83dx', r'\ud83d\x41', r'\ud83d\u{de00}', r'\u{d83d}\u{de00}', r'\u{+41}', r'\u{-41}', r'\u+041', r'\u-041', r'\u{}', r'\u{', r'\u{41', r'\u{0000000041}', r'\u{110000}', r'\u{10FFFF}', r'\u{FFFFFFFF}', r'\u{100000000}', r'\u{g}', r'\u{4 1}', r'\u004', r'\u004g', r'\u', r'\uFFFF', r'\uffff', r'\uFfFf', r'\u{1f600}+', r'\ud83d\ude00+', r'\ud83d\u+e00',
  r'\cA', r'\ca', r'\cZ', r'\c', r'\c1', r'\c_', r'\c*', r'\c+', r'a\c', r'\c\c', r'\c{2}', r'\cA{2}', r'\c?', r'(\c)*',
  r'\0', r'\00', r'\07', r'\08', r'\09', r'\01', r'\012', r'\0123', r'\1', r'\2', r'\7', r'\8', r'\9', r'\10', r'\18', r'\19', r'\77', r'\78', r'\377', r'\400', r'\477', r'\777', r'\1234', r'(a)\1', r'(a)\2', r'\1(a)', r'(a)\10', r'(a)(b)(c)(d)(e)(f)(g)(h)(i)(j)\10', r'(a)(b)(c)(d)(e)(f)(g)(h)(i)(j)\11', r'(a)\01', r'(a)\1+', r'\1{2}', r'(?:a)\1', r'(?=a)\1', r'(?<n>a)\1', r'[(a)]\1', r'\(a)\1', r'(a\))\1', r'\99999999999999999999', r'(a)\99999999999999999999', r'(a)\00001', r'(a)\1a',
  r'\x41', r'\x4', r'\x', r'\xg1', r'\x4g', r'\xFF', r'\xff', r'\x+1', r'\f\n\r\t\v', r'\a', r'\e', r'\g', r'\h', r'\i', r'\j', r'\l', r'\m', r'\o', r'\q', r'\y', r'\z', r'\A', r'\Z', r'\_', r'\-', r'\ ', r'\/', r'\^\$\\\.\*\+\?\(\)\[\]\{\}\|', r'\,', r'\:', r'\=', r'\!', r'\<', r'\>', r'\&', r'\#', r'\%', r'\@', r'\`', r'\~', r'\"', r"\'", r'\é', r'\π', r'\😀', '\\\ud800', '\\\udc00', 'a\\',
  r'\d', r'\D', r'\s', r'\S', r'\w', r'\W', r'\b', r'\B', r'\b*', r'\B+', r'\b?', r'\b{2}', r'^*', r'$*', r'^+', r'$?', r'^{2}', r'a^', r'$a', r'\d+', r'\W*?',
  r'\p{Lu}', r'\P{Lu}', r'\p{L}', r'\p{Letter}', r'\p{gc=Lu}', r'\p{General_Category=Lu}', r'\p{sc=Latin}', r'\p{Script=Greek}', r'\p{scx=Hira}', r'\p{Script_Extensions=Latin}', r'\p{ASCII}', r'\p{Any}', r'\p{Assigned}', r'\P{Any}', r'\p{Alphabetic}', r'\p{Alpha}', r'\p{Emoji}', r'\p{ID_Start}', r'\p{IDS}', r'\p{Lowercase}', r'\p{Ll}', r'\P{Ll}', r'\p{Lt}', r'\p{Nd}', r'\p{Zs}', r'\p{Cn}', r'\p{Co}', r'\p{Cs}', r'\p{RGI_Emoji}', r'\p{Basic_Emoji}',
  r'\p', r'\p{', r'\p{}', r'\p{Lu', r'\p{Foo}', r'\p{gc=}', r'\p{=Lu}', r'\p{gc=Lu=}', r'\p{gc==Lu}', r'\p{sc=Lu}', r'\p{gc=Latin}', r'\p{Latin}', r'\p{lu}', r'\p{ Lu}', r'\p{L-u}', r'\p{L_u}', r'\pL', r'\p{scx}', r'\p{gc}', r'\p{Script}', r'\P', r'\P{', r'\p{Lu}+', r'\p{Lu}{2}', r'\p{é}', r'\p{Lu\}')
# quantifiers
P(r'a*', r'a+', r'a?', r'a*?', r'a+?', r'a??', r'a{1}', r'a{1,}', r'a{1,2}', r'a{1,2}?', r'a{2,1}', r'a{0}', r'a{0,0}', r'a{,1}', r'a{,}', r'a{', r'a{1', r'a{1,', r'a{1,2', r'a{a}', r'a{1a}', r'a{1,a}', r'a{ 1}', r'a{1 }', r'a{-1}', r'a{+1}', r'a{1}{2}', r'a**', r'a*+', r'a+*', r'a?*', r'a???', r'a{1}*', r'{', r'}', r'{}', r'{1}', r'{1,2}', r'{a}', r'a{}', r'a}', r']', r'a]', r'{1', r'{,', r'{,1}', r'x{99999999999999999999}', r'x{99999999999999999999,}', r'x{1,99999999999999999999}', r'x{99999999999999999999,1}', r'x{99999999999999999999,99999999999999999998}', r'x{18446744073709551615}', r'x{18446744073709551616}', r'x{18446744073709551614,18446744073709551615}', r'x{18446744073709551616,18446744073709551615}', r'x{00001}', r'x{0001,0002}',
  r'(a)*', r'(a)+(b)?', r'(a(b))*', r'(?:a(b)(c))*(d)', r'(a)|(b)*', r'((a)|(b))*', r'(?=(a))*', r'(?!(a))+b', r'(?:(?=(a)))*', r'(?:a|b)+', r'(?:)+', r'()*', r'(|)+', r'a|*', r'(*)', r'(?:+)', r'|*', r'a|b*|c', r'.*', r'.+?', r'[a]*', r'[a]{2}', r'\d{2,3}', r'\1*(a)', r'(a)\1*', r'\k<n>*(?<n>a)', r'(?<n>a)\k<n>{2}')
# misc structure
P(r'', r'|', r'||', r'a|', r'|a', r'a||b', r'a|b|c|d|e', r'a|b|c|d|e|f|g', r'(a|b|c)', r'(a|b|c|d|e)', r'()', r'(())', r'(()())', r'((((a))))', r'(a', r'a)', r'(a))', r'((a)', r')(', r'(?:a', r'(?:', r'(?', r'(?)', r'(?a)', r'(?=)', r'(?!)', r'(?<=)', r'(?<!)', r'(?:)', r'(?<a>)', r'a.b', r'^a$', r'^$', r'^^', r'$$', r'\b\B', r'abc', r'a.c', r'.', r'..', r'a b', 'a\nb', 'a\u2028b', 'é', 'ǅ', 'ß', 'ẞ', 'ſ', 'K', 'k', 'K', 'Ω', 'Ω', 'ω', 'ι', 'ͅ', 'ι', 'µ', 'μ', 'Μ', 'ǆ', 'Ǆ', 'θ', 'ϑ', 'ϴ', 'Θ', 'I', 'i', 'İ', 'ı', 's', 'S', 'σ', 'ς', 'Σ', 'ᲀ', 'в', 'В', 'Ꙋ', 'ꙋ', 'ᲈ', '𐐀', '𐐨', 'Ǳ', 'ǲ', 'ǳ', '\u1e9e', '\u00df', '\ufb05', '\ufb06', '\u0390', '\u1fd3', '\u03b0', '\u1fe3', '\u1c8a', '\u1c89', '\ua7da',
  '\ud800', '\udfff', 'a\ud83d', '\ud83d\ude00', '[\ud83d\ude00]', '[\ud83d]', '(?<\ud83d\ude00>x)', '\\p{L\ud800}', 'a{1\ud800}')
lines = []
def enc(s):
    return '.'.join('%x' % ord(c) for c in s) if s else '-'
for p in pats:
    for f in flags:
        lines.append(f + ' ' + enc(p))
# raw code points beyond 0x10FFFF and lone surrogates as raw u32
raws = [[0x110000],[0x5b,0x110000,0x5d],[0x5b,0x61,0x2d,0x110000,0x5d],[0x5c,0x110000],[0xffffffff],[0x5b,0xfffffffe,0x5d],[0x28,0x3f,0x3c,0x110000,0x3e,0x29],[0x5c,0x75,0x7b,0x110000,0x7d],[0x5c,0x63,0x110000],[0x61,0x7b,0x110000,0x7d],[0x5c,0x70,0x7b,0x110000,0x7d],[0x5b,0x5c,0x110000,0x5d],[0x5b,0x5c,0xd800,0x5d],[0x5b,0xd800,0x2d,0xdfff,0x5d],[0x5b,0xdfff,0x2d,0xd800,0x5d]]
for r in raws:
    for f in flags:
        lines.append(f + ' ' + '.'.join('%x'%c for c in r))
# deep nesting
for n in [10, 100, 254, 255, 256, 257, 300]:
    for f in ['-','u','v','i']:
        lines.append(f+' '+enc('('*n + 'a' + ')'*n))
        lines.append(f+' '+enc('(?:'*n + 'a' + ')'*n))
        lines.append(f+' '+enc('(?='*n + 'a' + ')'*n))
        lines.append(f+' '+enc('(?<='*n + 'ab' + ')'*n))
        lines.append(f+' '+enc('(?i:'*n + 'a' + ')'*n))
        lines.append(f+' '+enc('(?:a|'*n + 'a' + ')'*n))
        lines.append(f+' '+enc('('*n + 'a' + ')*'*n))
    for f in ['v','iv']:
        lines.append(f+' '+enc('['*n + 'a' + ']'*n))
        lines.append(f+' '+enc('[^'*n + 'a' + ']'*n))
        lines.append(f+' '+enc('(?:'*(n//2) + '['*(n-n//2) + 'a' + ']'*(n-n//2) + ')'*(n//2)))
        lines.append(f+' '+enc('[a&&'*n + 'a' + ']'*n))
for n in [2,3,4,5,6,7,8,9,15,16,17,31,33,100,1000]:
    lines.append('- '+enc('|'.join(['a']*n)))
    lines.append('- '+enc('|'.join('(%d)'%i for i in range(n))))
    lines.append('- '+enc('(?<=' + '|'.join('a%db'%i for i in range(n)) + ')'))
# random structured generator
atoms = ['a','b','k','K','.','^','$',r'\b',r'\B',r'\d',r'\W',r'\1',r'\2',r'\k<n>',r'\k<m>','[ab]','[^a-c]',r'[\d-x]','(?:','(','(?<n>','(?<m>','(?=','(?!','(?<=','(?<!','(?i:','(?-i:',')',')','|','|','*','+','?','{2}','{1,3}','{2,1}','*?','{',  '}',']',r'\u{1F600}',r'\x41',r'\cJ',r'\07',r'\p{Lu}',r'\P{Ll}',r'[\q{ab|c}]',r'[a&&b]',r'[\w--\d]','é','ſ','😀']
for i in range(6000):
    n = random.randint(1, 12)
    s = ''.join(random.choice(atoms) for _ in range(n))
    # balance parens sometimes
    if random.random() < 0.7:
        depth = 0; out=[]
        j=0
        opens = s.count('(') - s.count(r'\(')
        closes = s.count(')')
        if opens > closes: s += ')'*(opens-closes)
    f = random.choice(flags)
    lines.append(f + ' ' + enc(s))
sys.stdout.write('\n'.join(lines)+'\n')
