import RegressModel.Syntax.Parse
open Regress

partial def loop (h : IO.FS.Stream) (out : IO.FS.Stream) : IO Unit := do
  let line ← h.getLine
  if line.isEmpty then return
  let t := line.trimAscii.toString
  if t.isEmpty then loop h out else
  match t.splitOn " " with
  | [f, p] => out.putStrLn (Parse.parseLine f p)
  | [f] => out.putStrLn (Parse.parseLine f "-")
  | _ => out.putStrLn "bad-request"
  loop h out

def main : IO Unit := do
  let stdin ← IO.getStdin
  let stdout ← IO.getStdout
  loop stdin stdout
