#!/usr/bin/env python3
"""Boundary corpus: try_duplicate depth cap (100), is_unrollable budget (256), long literals/chunks."""
import sys
def enc(p): return "-" if p=="" else ".".join("%x"%ord(c) for c in p)
out=[]
L="abcdefghijklmnopqrstuvwxyz"
for fl in ["-","i","u","iu"]:
    # alternations with many arms inside unrollable loops (Alt nesting depth = arms)
    for k in list(range(90,112))+[126,127,128,129,130,200,253,254,255,256,257,258,300]:
        arms="|".join(L[i%26]+L[(i//26)%26] for i in range(k))
        for q in ["{2}","{1}","{5}","{1,}","{3,4}?"]:
            out.append((fl,"(?:%s)%s"%(arms,q)))
            out.append((fl,"(?<=(?:%s)%s)"%(arms,q)))
        out.append((fl,arms))
    # nested non-capturing groups / lookarounds
    for d in list(range(90,112))+[120,127,128,200,250]:
        inner="a"
        for i in range(d):
            inner="(?:%s|b)"%inner
        out.append((fl,"(?:%s){2}"%inner))
        inner="a"
        for i in range(d):
            inner="(?=%s)"%inner
        out.append((fl,"(?:%s){2}"%inner))
        inner="a"
        for i in range(d):
            inner="(?:%sx)"%inner
        out.append((fl,"(?:%s){2}"%inner))
        inner="a"
        for i in range(d):
            inner="(?<=%sx)"%inner
        out.append((fl,"(?:%s){2}"%inner))
        out.append((fl,inner))
    # budget: k atoms in the body
    for k in list(range(120,132))+list(range(250,262)):
        body="".join("[%s%s]"%(L[i%26],L[(i+1)%26]) for i in range(k))
        out.append((fl,"(?:%s){2}"%body))
        out.append((fl,"(?:%s){1}"%body))
        body="".join(L[i%26] for i in range(k))
        out.append((fl,"(?:%s){2}"%body))
        out.append((fl,"(?<=(?:%s){2})"%body))
        body="|".join("[%s%s]"%(L[i%26],L[(i+1)%26]) for i in range(k//2))
        out.append((fl,"(?:%s){3}"%body))
    # long literals
    for n in [15,16,17,31,32,33,47,48,49,160,161,255,256,257,1000]:
        s="".join(L[i%26] for i in range(n))
        out += [(fl,s),(fl,"(?<=%s)"%s),(fl,"(?<!x%sé)"%s),(fl,"(?<=%s)%s"%(s,s)),(fl,"(?:%s){5}"%s),(fl,"(?:%s){6}"%s)]
    # many groups / names
    for n in [1,2,3,10,50,200]:
        out.append((fl,"".join("(?<g%d>a)"%i for i in range(n))))
        out.append((fl,"(?<=%s)"%"".join("(?<g%d>a)"%i for i in range(n))))
        out.append((fl,"".join("(a)" for i in range(n))+"(?<last>b)"))
        out.append((fl,"(?<=%s)"%("".join("(a)" for i in range(n))+"(?<last>b)")))
        out.append((fl,"(?:%s)+"%"".join("(a)" for i in range(n))))
        out.append((fl,"(?:%s)*"%"".join("(a)|" for i in range(n))))
        out.append((fl,"".join("a*" for i in range(n))))
        out.append((fl,"".join("(?:ab)*" for i in range(n))))
for fl,p in out:
    print(fl,enc(p))
