#!/usr/bin/env python3
"""Pattern corpus generator for the optimizer/start-predicate/emitter differential test.
Output lines: <flags or -> <code points hex.hex... or ->"""
import random, sys

seed = int(sys.argv[1]) if len(sys.argv) > 1 else 1
N = int(sys.argv[2]) if len(sys.argv) > 2 else 60000
rng = random.Random(seed)

FLAGS = ["-", "-", "-", "i", "u", "iu", "m", "s", "v", "iv", "im", "imu", "mu", "su", "ims", "imsv", "mv"]

ASCII_LETTERS = "abcdefghijklmnopqrstuvwxyzABCDEFGHIJKLMNOPQRSTUVWXYZ"
SPECIAL_CHARS = ["é", "ß", "ſ", "K", "k", "K", "s", "S", "σ", "ς", "Σ", "ǅ", "ǆ", "Ǆ", "İ", "ı", "Ω", "Ω",
                 "😀", "𐐀", "𐐨", "日", "本", "ΐ", "ΐ", "µ", "μ", "Μ", "ᲀ", "в", "Ꙋ", "ᲈ", "ẞ", "Å", "Å", "å",
                 " ", " ", "\n", "\r", " ", "\t", "0", "9", "_", "-", "!", "~", "\x7f", "\x80", "\xff", "߿", "ࠀ", "￿", "\U00010000", "\U0010ffff"]

def lit_char(fl):
    r = rng.random()
    if r < 0.6:
        return rng.choice(ASCII_LETTERS + "0123456789_ ")
    if r < 0.85:
        c = rng.choice(SPECIAL_CHARS)
        if c in "\n\r": return "\\n"
        return c
    if r < 0.9:
        return rng.choice(["\\ud800", "\\udc00", "\\udfff", "\\ud83d\\ude00", "\\u0041", "\\x41", "\\u{1F600}" if ('u' in fl or 'v' in fl) else "\\u1F60"])
    if r < 0.93:
        return rng.choice(["\\.", "\\*", "\\/", "\\(", "\\[", "\\\\", "\\$", "\\^", "\\|"])
    if r < 0.96:
        return rng.choice(["\\t", "\\n", "\\v", "\\f", "\\r", "\\0", "\\cJ"])
    return chr(rng.choice([0xD800, 0xDBFF, 0xDC00, 0xDFFF, 0xE000, 0x10FFFF, 0x7F, 0x80, 0x7FF, 0x800]))

def literal(fl, n=None):
    if n is None:
        n = rng.choice([1, 1, 2, 2, 3, 4, 5, 7, 8, 15, 16, 17, 18, 31, 32, 33, 40])
    return "".join(lit_char(fl) for _ in range(n))

def klass(fl):
    uni = 'u' in fl or 'v' in fl
    opts = ["[a-z]", "[^a]", "[abc]", "[a]", "[]", "[^]", "\\d", "\\w", "\\s", "\\D", "\\W", "\\S", ".", "[a-zA-Z0-9_]",
            "[abcd]", "[abcde]", "[a-d]", "[a-e]", "[^a-z]", "[\\d]", "[\\w-]", "[é]", "[éa]", "[\\u0100-\\u0103]", "[\\u0100-\\u0104]",
            "[a\\u0100]", "[\\ud800]", "[\\ud800-\\udfff]", "[^\\u0000-\\uffff]", "[\\s\\S]", "[^\\s\\S]", "[\\d\\D]", "[k]", "[K]", "[s]", "[ks]",
            "[\\x00-\\x7f]", "[\\x00-\\x80]", "[^\\x00-\\x7f]", "[\\u0080-\\u07ff]", "[\\u0800-\\uffff]", "[😀]", "[a😀]", "[\\x7f\\x80]",
            "[a-cx-z]", "[a-cx-zA-C0-5_]", "[^a-cx-zA-C0-5_]", "[\\b]", "[-a]", "[a-]", "[\\-]", "[aa]", "[a-a]", "[b-ac]" ]
    if uni and rng.random() < 0.25:
        opts += ["\\p{Lu}", "\\P{Lu}", "\\p{L}", "\\p{Script=Greek}", "\\p{ASCII}", "[\\p{Lu}]", "[^\\p{Lu}]", "[\\p{Nd}a]", "\\p{Any}", "\\P{Any}", "[\\u{10000}-\\u{10003}]",
                 "[\\u{1F600}]", "\\p{scx=Latin}", "\\p{Cs}", "\\p{Lt}"]
    if 'v' in fl:
        opts += ["[\\q{abc|a|}]", "[\\q{abc|ab|a}]", "[\\q{}]", "[\\q{a}]", "[\\q{ab}]", "[\\q{ab|cd}x]", "[[a-z]--[aeiou]]", "[[a-z]&&[aeiou]]", "[\\q{ss|K|k}]",
                 "[^\\q{a}]", "\\p{RGI_Emoji}" , "\\p{Emoji_Keycap_Sequence}", "[\\q{😀|é|ß}]", "[a\\q{bc}]", "[\\q{abc|a|}--\\q{a}]", "[\\q{abcdefghijklmnopqrstuvwxyz|b}]"]
    if rng.random() < 0.15:
        # random bracket
        items = []
        for _ in range(rng.randint(1, 5)):
            a = rng.choice("abcdefxyzABC019_é")
            if rng.random() < 0.4:
                b = chr(ord(a) + rng.randint(0, 5))
                items.append(a + "-" + b)
            else:
                items.append(a)
        return "[" + ("^" if rng.random() < 0.3 else "") + "".join(items) + "]"
    return rng.choice(opts)

def quant():
    r = rng.random()
    if r < 0.35:
        q = rng.choice(["*", "+", "?"])
    else:
        shape = rng.random()
        m = rng.choice([0, 0, 1, 1, 2, 3, 4, 5, 6, 7, 10])
        if shape < 0.35:
            q = "{%d}" % m
        elif shape < 0.6:
            q = "{%d,}" % m
        else:
            n = m + rng.choice([0, 0, 1, 2, 3, 10])
            q = "{%d,%d}" % (m, n)
        if rng.random() < 0.03:
            q = rng.choice(["{0}", "{0,0}", "{18446744073709551615}", "{2,18446744073709551615}", "{3,99999999999999999999999}", "{1,18446744073709551616}", "{5,18446744073709551615}", "{99999999999999999999}"])
    if rng.random() < 0.25:
        q += "?"
    return q

class Ctx:
    def __init__(self, fl):
        self.fl = fl
        self.groups = 0
        self.names = []

def atom(cx, depth, lb):
    fl = cx.fl
    r = rng.random()
    if depth <= 0:
        r = r * 0.55
    if r < 0.3:
        return literal(fl, rng.choice([1, 1, 1, 2, 3]))
    if r < 0.45:
        return klass(fl)
    if r < 0.5:
        return literal(fl)
    if r < 0.55:
        return rng.choice(["^", "$", "\\b", "\\B", "", "(?:)", "()", "(?=)", "(?!)", "(?<=)", "(?<!)"])
    if r < 0.65:
        return "(?:" + alt(cx, depth - 1, lb) + ")"
    if r < 0.75:
        cx.groups += 1
        return "(" + alt(cx, depth - 1, lb) + ")"
    if r < 0.8:
        cx.groups += 1
        nm = "n%d" % cx.groups
        cx.names.append(nm)
        return "(?<" + nm + ">" + alt(cx, depth - 1, lb) + ")"
    if r < 0.86:
        kind = rng.choice(["(?=", "(?!"])
        return kind + alt(cx, depth - 1, False) + ")"
    if r < 0.94:
        kind = rng.choice(["(?<=", "(?<!"])
        return kind + alt(cx, depth - 1, True) + ")"
    if r < 0.97:
        if cx.groups > 0:
            return "\\%d" % rng.randint(1, cx.groups)
        return "\\1" if rng.random() < 0.3 else "a"
    if cx.names:
        return "\\k<" + rng.choice(cx.names) + ">"
    return klass(fl)

def term(cx, depth, lb):
    a = atom(cx, depth, lb)
    if a in ("^", "$", "\\b", "\\B", "", "(?<=)", "(?<!)") or a.startswith("(?<=") or a.startswith("(?<!"):
        return a
    uni = 'u' in cx.fl or 'v' in cx.fl
    if (a.startswith("(?=") or a.startswith("(?!")) and uni:
        return a
    if rng.random() < 0.3:
        if len(a) > 1 and not (a.startswith("(") or a.startswith("[") or a.startswith("\\") or a == "."):
            # quantifier applies to last char only; fine
            pass
        return a + quant()
    return a

def seq(cx, depth, lb):
    n = rng.choice([0, 1, 1, 2, 2, 3, 4, 6])
    return "".join(term(cx, depth, lb) for _ in range(n))

def alt(cx, depth, lb):
    r = rng.random()
    if r < 0.7:
        k = 1
    elif r < 0.95:
        k = rng.randint(2, 5)
    else:
        k = rng.randint(6, 40)
    arms = []
    shared = literal(cx.fl, rng.randint(1, 3)) if rng.random() < 0.4 else ""
    for _ in range(k):
        if k > 5:
            arms.append((shared if rng.random() < 0.7 else "") + literal(cx.fl, rng.randint(0, 4)))
        else:
            arms.append((shared if rng.random() < 0.5 else "") + seq(cx, depth, lb))
    return "|".join(arms)

def random_pattern(fl):
    cx = Ctx(fl)
    return alt(cx, rng.choice([0, 1, 2, 2, 3, 4]), False)

def fixed(fl):
    uni = 'u' in fl or 'v' in fl
    out = []
    bodies = ["a", "ab", "[a-z]", "[a]", "[]", "[^]", ".", "(?:a)", "(a)", "(?:ab|c)", "\\d", "(?:a*)", "(?:a+)", "(?:a{2})", "(a)|b", "(?:)", "()", "(?=a)", "(?<=a)", "(?:a|)", "é", "😀", "\\ud800", "(?:(?<=ab)c)", "(?:a(?=b))", "(?<n>a)", "\\b", "[\\q{ab|c}]" if 'v' in fl else "x", "\\p{Lu}" if uni else "y", "(?:abc|abd)", "(?:[ab][cd])", "\\1(a)", "(?:a\\1)", "(?:^a)", "(?:a$)"]
    for b in bodies:
        for m in range(0, 8):
            out.append("%s{%d}" % (b, m))
            out.append("%s{%d,}" % (b, m))
            out.append("%s{%d,}?" % (b, m))
            for n in range(m, min(m + 3, 9)):
                out.append("%s{%d,%d}" % (b, m, n))
                out.append("x%s{%d,%d}?y" % (b, m, n))
                out.append("(?<=%s{%d,%d})z" % (b, m, n))
        for q in ["*", "+", "?", "*?", "+?", "??"]:
            out.append(b + q)
            out.append("^" + b + q)
            out.append("(?<!x" + b + q + "y)")
    # literals of many lengths
    for n in list(range(0, 40)) + [47, 48, 49, 64, 65, 100]:
        s = "".join(ASCII_LETTERS[i % 52] for i in range(n))
        out += [s, "(?<=" + s + ")", "(?<!" + s + ")q", "(?=" + s + ")", "x(?<=" + s + "(?=" + s + "))", "(?<=(?=" + s + ")" + s + ")", "(?<=" + s + "é" + s + ")", s + "|" + s, "(" + s + ")"]
        t = "".join("é日😀ß"[i % 4] for i in range(n))
        out += [t, "(?<=" + t + ")", "(?<=a" + t + "\\ud800" + t + ")", t + "\\udc00" + s]
    # alternations with prefixes
    for k in range(2, 41):
        out.append("|".join("ab" + ASCII_LETTERS[i] for i in range(k)))
        out.append("|".join(ASCII_LETTERS[i] + "x" for i in range(k)))
        out.append("|".join(ASCII_LETTERS[i % 3] for i in range(k)))
        out.append("|".join("[" + ASCII_LETTERS[i] + "-z]" for i in range(k)))
        out.append("(?<=" + "|".join("ab" + ASCII_LETTERS[i] for i in range(k)) + ")")
        out.append("|".join(["^" + ASCII_LETTERS[i] for i in range(k)]))
        out.append("|".join(["é" + ASCII_LETTERS[i] for i in range(k)]))
    out += ["^a", "a^", "(^a|^b)", "(?:^a|^b)", "(^a|b)", "^", "^|^", "(^)", "(?:^)a", "^a|^b|^c", "(^a)|(^b)", "(?=^)a", "^*" if not uni else "^", "(?:^a)+", "(?:^a){2}",
            "(a)\\1", "(?<n>a)\\k<n>", "(?<=(?<n>a))", "(?<=(?<n>a)(?<m>b))", "(?<=(a)(?<m>b)(c))x(?<z>d)", "(?<!(?<n>a))(?<k>b)", "(?<=(?<a>x)|(?<a>y))",
            "(?<a>x)|(?<a>y)", "(?:(?<a>x)|(?<a>y))\\k<a>", "\\k<a>(?<a>x)", "(?<=\\k<a>(?<a>x))", "(?<=\\1(a))", "(a)(?<=\\1)",
            "[]", "[^]", "a[]", "[]a", "a|[]", "[]|a", "[]|[]", "(?:[]|[])b", "[]*", "[]+", "[]{2}", "([])", "([])+", "(?=[])", "(?![])", "(?<=[])", "a[]|b", "(?:a[]|b[])c", "[^]+", "[]?",
            "(?:)", "()", "(?=)", "(?!)", "(?<=)", "(?<!)", "(?:)*", "()*", "(){2}", "(?:(?:))", "(?:|)", "(|)", "|", "||", "a|", "|a", "(?:|a)", "(?=|)", "(?=(?:))", "(?!(?:))", "(?:(?=))", "(?:(?=))*",
            "a{0}", "(a){0}", "(?:a|b){0}", "a{0}b", "(a){0}b", "a{0}{0}" if not uni else "a{0}", "(?:a{0})*", "(?:a{0}){3}", "((a){0})+",
            "(?:(?:a))", "(?:(?:a)(?:b))", "(?:(?:ab)(?:cd))ef", "(?:a(?:b(?:c(?:d))))", "a(?:b)c(?:d)e", "(?:a|b)c", "(?:(?:a|b))",
            "(?:a+)+", "(?:a*)*", "(?:a{2}){2}", "(?:a{2}b){2}", "(?:(?:a{2})b){3}", "(?:a{2,3}){2,3}", "(?:a+){5}", "(?:a+){6}", "(?:(?:ab){2}c){2}", "(?:a{5}){5}", "(?:(?:a{5}){5}){5}",
            "(?:[ab]{2}){2}", "(?:.{2}){2}", "(?:\\d{3}-){2}\\d{4}", "(?:a|b{2}){2}", "(?:(?=a)b){3}", "(?:(?<=a)b){3}", "(?:(?<=ab)cd){3}", "(?:(?!a{2})b){2}",
            "\\d+", "\\w+\\s*\\d{2,}", "[a-z]+@[a-z]+\\.[a-z]{2,3}", "(?:é|ê)+", "😀+", "😀{2}", "\\ud800+", "\\ud800{2}", "(?:\\ud800\\udc00){2}",
            "a.c", "a.*c", ".*", ".+?", "[^a]*", "(?:.|\\n)*", "\\bfoo\\b", "\\Bfoo\\B", "(?<=\\b)a", "(?<=ab\\b)a",
            "(?<=a)(?<=b)", "(?<=(?<=a)b)", "(?<=a(?=b)c)", "(?<=a(?=bc)de)f", "(?<=ab(?<=cd)ef)", "(?<=ab(?<!cd)ef)", "(?=ab(?<=cd)ef)", "(?=(?<=(?=ab)cd)ef)gh",
            "(?<=ab|cd)", "(?<=(?:ab|cd)ef)", "(?<=ab[c]de)", "(?<=ab[cd]ef)", "(?<=ab.cd)", "(?<=ab\\d{2}cd)", "(?<=ab(?:cd){2}ef)", "(?<=abc{2}d)", "(?<=(?:abc){2})", "(?<=ab*cd)", "(?<=(ab)cd)", "(?<=ab(cd)ef)",
            "(?<=abcdefghijklmnopqrstuvwxyz)", "(?<=abcdefghijklmnopq)", "(?<=abcdefghijklmnop)", "(?<=abcdefghijklmnopqrstuvwxyzabcdefg)",
            "(?<=éabcdefghijklmnopqrstuvwxyz)", "(?<=abcdefghijklmnopé)",
            "K", "k", "s", "ß", "ſ", "σ", "ς", "ǅ", "İ", "ı", "K", "Ω", "Å", "µ", "ǅǆ", "KkK", "ssſ", "aKb", "(?<=aKb)", "(?<=Kab)", "(?<=abK)", "[k]", "[ks]", "[K-k]", "[^k]",
            "\\u{1F600}" , "\\u{10FFFF}", "\\ud83d\\ude00", "\\ud83d", "\\ude00", "[\\ud83d\\ude00]", "\\ud83da", "a\\ude00",
            ]
    if uni:
        out += ["\\p{Lu}", "\\P{Lu}", "\\p{Lu}+", "\\p{Lu}{2}", "(?<=\\p{Lu})", "\\p{Lu}|a", "a|\\p{Lu}", "\\p{Any}", "\\P{Any}", "\\p{ASCII}", "\\P{ASCII}", "[\\p{ASCII}]", "[^\\p{ASCII}]", "\\p{Cs}", "\\p{Co}",
                "\\p{Lu}\\p{Ll}+", "[\\p{Lu}\\p{Ll}]", "\\p{Script=Greek}{3}"]
    if 'v' in fl:
        out += ["[\\q{abc|a|}]", "\\q{abc|a|}" , "[\\q{abc|a|}]+", "[\\q{abc|a|}]{2}", "(?<=[\\q{abc|a|}])", "(?<=[\\q{abc|ab|a}]x)", "[\\q{abc|a|}]|x", "x|[\\q{abc|a|}]", "([\\q{abc|a|}])", "[\\q{}]", "[\\q{}a]", "[\\q{a|b}]", "[\\q{ab}]",
                "[\\q{Kk|ss|ſ}]", "(?<=[\\q{Kk|ss|ſ}])", "[\\q{abcdefghijklmnopqrstuvwxyz}]", "(?<=[\\q{abcdefghijklmnopqrstuvwxyz}])", "[\\q{\\ud800a|b\\udc00}]", "[\\q{😀é|é😀}]", "(?<=[\\q{😀é|é😀}])",
                "\\p{RGI_Emoji_Flag_Sequence}", "\\p{Emoji_Keycap_Sequence}", "(?<=\\p{Emoji_Keycap_Sequence})", "\\p{Emoji_Keycap_Sequence}+", "[\\p{Emoji_Keycap_Sequence}a]", "[\\q{ab|cd}&&\\q{ab}]", "[\\q{ab|cd}--\\q{ab}]", "[^\\q{a}]" ]
    return out

def enc(pat):
    if pat == "":
        return "-"
    return ".".join("%x" % ord(c) for c in pat)

lines = []
if not (len(sys.argv) > 3 and sys.argv[3] == "nofixed"):
    for fl in ["-", "i", "u", "iu", "m", "v", "iv", "im"]:
        for p in fixed(fl):
            lines.append((fl, p))
while len(lines) < N:
    fl = rng.choice(FLAGS)
    lines.append((fl, random_pattern(fl)))
w = sys.stdout
for fl, p in lines:
    w.write("%s %s\n" % (fl, enc(p)))
