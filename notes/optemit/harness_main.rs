//! For each input line `<flags or -> <pattern code points hex.hex… or ->` print
//! IR0 / IR1 / SP / PROG / PROG0 lines.
use std::io::{BufRead, Write};

fn tr(s: &str) -> String {
    s.trim_end().replace('\n', "|").replace(' ', "~")
}

fn guarded<F: FnOnce() -> String + std::panic::UnwindSafe>(f: F) -> String {
    match std::panic::catch_unwind(f) {
        Ok(s) => s,
        Err(e) => {
            let msg = if let Some(s) = e.downcast_ref::<&str>() {
                s.to_string()
            } else if let Some(s) = e.downcast_ref::<String>() {
                s.clone()
            } else {
                "?".into()
            };
            format!("panic~{}", msg.replace(' ', "_"))
        }
    }
}

fn main() {
    std::panic::set_hook(Box::new(|_| {}));
    let stdin = std::io::stdin();
    let stdout = std::io::stdout();
    let mut out = std::io::BufWriter::new(stdout.lock());
    for line in stdin.lock().lines() {
        let line = line.unwrap();
        let mut it = line.split(' ');
        let fl = it.next().unwrap_or("-");
        let pat = it.next().unwrap_or("-");
        let fl = if fl == "-" { "" } else { fl };
        let cps: Vec<u32> = if pat == "-" {
            vec![]
        } else {
            pat.split('.').map(|h| u32::from_str_radix(h, 16).unwrap()).collect()
        };
        let mut f0 = regress::Flags::from(fl);
        f0.no_opt = true;
        let mut f1 = f0;
        f1.no_opt = false;
        let c = cps.clone();
        let ir0 = guarded(move || match regress::verif::dump_ir_canon(c.iter().copied(), f0) {
            Ok(s) => tr(&s),
            Err(_) => "error".into(),
        });
        let c = cps.clone();
        let ir1 = guarded(move || match regress::verif::dump_ir_canon(c.iter().copied(), f1) {
            Ok(s) => format!("ok~{}", tr(&s)),
            Err(_) => "error".into(),
        });
        let c = cps.clone();
        let sp = guarded(move || match regress::verif::dump_start_predicate(c.iter().copied(), f1) {
            Ok(s) => tr(&s),
            Err(_) => "error".into(),
        });
        let c = cps.clone();
        let prog = guarded(move || match regress::Regex::from_unicode(c.iter().copied(), f1) {
            Ok(re) => tr(&regress::verif::dump_program(&re)),
            Err(_) => "error".into(),
        });
        let c = cps.clone();
        let prog0 = guarded(move || match regress::Regex::from_unicode(c.iter().copied(), f0) {
            Ok(re) => tr(&regress::verif::dump_program(&re)),
            Err(_) => "error".into(),
        });
        writeln!(out, "IN {} {}", if fl.is_empty() { "-" } else { fl }, pat).unwrap();
        writeln!(out, "IR0 {}", ir0).unwrap();
        writeln!(out, "IR1 {}", ir1).unwrap();
        writeln!(out, "SP {}", sp).unwrap();
        writeln!(out, "PROG {}", prog).unwrap();
        writeln!(out, "PROG0 {}", prog0).unwrap();
    }
}
