import RegressModel.IR.Lines
open Regress.IR

structure Counts where
  blocks : Nat := 0
  skipped : Nat := 0
  opt : Nat := 0
  optBad : Nat := 0
  sp : Nat := 0
  spBad : Nat := 0
  em : Nat := 0
  emBad : Nat := 0
  em0 : Nat := 0
  em0Bad : Nat := 0
  stk : Nat := 0
  stkBad : Nat := 0
  walk : Nat := 0
  walkBad : Nat := 0
deriving Repr

/-- A visitor recording (depth, in_lookbehind, node) and applying `form_literal_bytes`. -/
def traceVisitor : Visitor (List String) OptErr := fun n w s =>
  let s := s!"{w.depth} {w.inLookbehind} {w.skipChildren} {toCanon n}" :: s
  match formLiteralBytes n w with
  | .error e => .error e
  | .ok .keep => .ok (n, w, s)
  | .ok (.modified n') => .ok (n', w, s)
  | .ok .remove => .ok (.empty, w, s)
  | .ok (.replace n') => .ok (n', w, s)

def walkAgree (n : Node) : Bool :=
  let a := walkMutPost traceVisitor false n []
  let b := walkMut traceVisitor true false n.height n []
  let short := walkMut traceVisitor true false (n.height - 1) n []
  (match a, b with
   | .ok (n1, t1), .ok (n2, t2) => toCanon n1 == toCanon n2 && t1 == t2
   | _, _ => false) &&
  (match short with | .error .fuel => true | _ => false)

def payload (l : String) : String :=
  match l.splitOn " " with
  | _ :: rest => " ".intercalate rest
  | [] => ""

partial def loop (h : IO.FS.Stream) (c : Counts) (shown : Nat) : IO Counts := do
  let l1 ← h.getLine
  if l1.isEmpty then return c
  let l2 ← h.getLine; let l3 ← h.getLine; let l4 ← h.getLine; let l5 ← h.getLine; let l6 ← h.getLine
  let tr (s : String) := s.trimAscii.toString
  let inp := tr l1
  let flags := match inp.splitOn " " with | _ :: f :: _ => f | _ => "-"
  let ir0 := payload (tr l2)
  let ir1 := payload (tr l3)
  let sp := payload (tr l4)
  let prog := payload (tr l5)
  let prog0 := payload (tr l6)
  let mut c := { c with blocks := c.blocks + 1 }
  let mut shown := shown
  if ir0 == "error" then
    return ← loop h { c with skipped := c.skipped + 1 } shown
  match parseCanon ir0 with
  | none => pure ()
  | some n0 =>
    c := { c with walk := c.walk + 1 }
    if !walkAgree n0 then
      c := { c with walkBad := c.walkBad + 1 }
      if shown < 30 then
        shown := shown + 1
        IO.println s!"WALK MISMATCH {inp}"
  -- optimizer
  let o := optimizeLine flags ir0
  c := { c with opt := c.opt + 1 }
  let ir1' := if ir1.startsWith "ok~" then "ok " ++ (ir1.drop 3).toString else ir1
  if o != ir1' then
    c := { c with optBad := c.optBad + 1 }
    if shown < 30 then
      shown := shown + 1
      IO.println s!"OPT MISMATCH {inp}\n  ir0  {ir0}\n  rust {ir1'}\n  lean {o}"
  if ir1.startsWith "ok~" then
    let ir1b := (ir1.drop 3).toString
    let s := (startPredLine flags ir1b).replace " " "~"
    c := { c with sp := c.sp + 1 }
    if s != sp then
      c := { c with spBad := c.spBad + 1 }
      if shown < 30 then
        shown := shown + 1
        IO.println s!"SP MISMATCH {inp}\n  ir1  {ir1b}\n  rust {sp}\n  lean {s}"
    let e := emitLine flags ir1b
    c := { c with em := c.em + 1 }
    if e != prog then
      c := { c with emBad := c.emBad + 1 }
      if shown < 30 then
        shown := shown + 1
        IO.println s!"EMIT MISMATCH {inp}\n  ir1  {ir1b}\n  rust {prog}\n  lean {e}"
    let e2 := emitStackLine flags ir1b
    c := { c with stk := c.stk + 1 }
    if e2 != prog then
      c := { c with stkBad := c.stkBad + 1 }
      if shown < 30 then
        shown := shown + 1
        IO.println s!"STACK MISMATCH {inp}\n  ir1  {ir1b}\n  rust {prog}\n  lean {e2}"
  let f0 := if flags == "-" then "O" else flags ++ "O"
  let e0 := emitLine f0 ir0
  c := { c with em0 := c.em0 + 1 }
  if e0 != prog0 then
    c := { c with em0Bad := c.em0Bad + 1 }
    if shown < 30 then
      shown := shown + 1
      IO.println s!"EMIT0 MISMATCH {inp}\n  ir0  {ir0}\n  rust {prog0}\n  lean {e0}"
  let e02 := emitStackLine f0 ir0
  c := { c with stk := c.stk + 1 }
  if e02 != prog0 then
    c := { c with stkBad := c.stkBad + 1 }
  loop h c shown

def main : IO Unit := do
  let h ← IO.getStdin
  let c ← loop h {} 0
  IO.println (repr c)
